"""C12 - axial expansion preserves assembly height, mesh contiguity and component mass.

Explicit-state BFS over *expansion histories* of the real ``AxialExpansionChanger`` on real
pin-type assemblies with a top dummy block (built from generated blueprints, see c12_spec.py).

state     = (init, [op ...]); rebuilt from the blueprint and replayed for every expansion
alphabet  = performPrescribedAxialExpansion(component set x factor) and
            performThermalAxialExpansion(uniform fields, linear ramp) - see ``alphabet``
oracle    = a boring reference model of the block stack (heights from growth fractions, component
            bottoms from cold-dimension linkage read off the *spec*, block top = designated target's
            top, the dummy absorbs the change) compared with the implementation after every step,
            plus the invariants of the property evaluated on the real objects in every state.

The target-mass clause is split structurally (DESIGN 4/C12 calibration):
  (a) blocks whose bottom is carried by their own target's chain (bottom block; target not linked
      downwards; target linked to the target of the block below)          -> strict keys
  (b) blocks whose target is linked to a NON-target component of the block below: the block bottom
      follows another component chain than the target                     -> ``...-foreign-bottom-chain``
so that any other loss of mass has a different key.
"""
import json
import math
import statistics

from mcverif import core, env, explore
from mcverif.checks import c12_spec as S

PROPERTY = "C12"
LEVEL = "model_checking"
MOD = "mcverif.checks.c12"

TOL = 1e-10  # algebraically equal, differently associated arithmetic over <= 4 steps (DESIGN 3.4)
TOL_N = 1e-12  # one multiplication per step
TOL_GEOM = 1e-9  # real mass ratio vs the ratio the block-model geometry dictates (classification of class (b) only)
FACTORS = {"u11": 1.1, "d11": 1.0 / 1.1, "u9": 1.0 / 0.9, "d9": 0.9, "one": 1.0}
INVERSE = {"u11": "d11", "d11": "u11", "u9": "d9", "d9": "u9", "one": "one"}
# tiny steps of several magnitudes (values just below / above any difference threshold, and their accumulation)
for _n, _x in (("1e9", 1e-9), ("1e6", 1e-6), ("2e6", 2e-6), ("1e4", 1e-4)):
    FACTORS["p" + _n], FACTORS["m" + _n] = 1.0 + _x, 1.0 / (1.0 + _x)
    INVERSE["p" + _n], INVERSE["m" + _n] = "m" + _n, "p" + _n
# uniform fields; 0.0 C exactly (a falsy reference temperature) and a negative temperature are boundary values
UNIFORM = {"U350": 350.0, "U450": 450.0, "U550": 550.0, "U0": 0.0, "Um50": -50.0}
# linear ramps, bottom -> top of the assembly; two of them start / end at exactly 0.0 C
RAMPS = {"ramp": (350.0, 550.0), "ramp0up": (0.0, 200.0), "ramp0dn": (200.0, 0.0)}
MAX_STORED_PER_KEY = 40

# violation classes that are the structural case (b) above: the search continues through them
SOFT_KEYS = (
    "c12/target-mass-foreign-bottom-chain",
    "c12/uniform-growth-mass-foreign-bottom-chain",
    "c12/inverse-restore-foreign-bottom-chain",
)


def _rel(a, b, tol):
    return abs(a - b) <= tol * max(abs(a), abs(b)) + 1e-300


# ---------------------------------------------------------------------------------------------
# initial states and alphabets


def _init(stack, heights, alpha="full", **kw):
    d = {"stack": stack, "heights": [float(h) for h in heights], "fuel_mat": "UZr", "clad_mat": "HT9", "bond": False, "tight": False, "multi": False, "fat": None, "shield_mult": None, "duct_mat": None, "grid_mat": None, "targets": {}, "thot": "varied", "reuse": False, "alpha": alpha}
    d.update(kw)
    return d


def base_inits():
    """Deviation-bounded family: two base stacks, each deviation alone, and a few pairs."""
    out = []
    for stack, hs, fuel_blocks, top in (("SFD", [25, 25, 10], ["1"], "1"), ("GFFPD", [10, 25, 10, 25, 10], ["1", "2"], "3")):
        out.append(_init(stack, hs))
        out.append(_init(stack, hs, fuel_mat="UraniumOxide"))
        out.append(_init(stack, hs, clad_mat="Inconel625"))
        out.append(_init(stack, hs, bond=True))
        out.append(_init(stack, hs, targets={k: "clad" for k in fuel_blocks}))
        out.append(_init(stack, hs, targets={fuel_blocks[-1]: "duct"}))
        out.append(_init(stack, hs, thot="flat"))
        out.append(_init(stack, hs, tight=True))
        alt = [10, 10, 25] if stack == "SFD" else [25, 10, 25, 10, 25]
        out.append(_init(stack, alt))
        out.append(_init(stack, hs, fuel_mat="Custom"))  # a solid given by custom isotopics as the block's target
        if stack == "GFFPD":
            out.append(_init(stack, hs, grid_mat="Molybdenum"))  # a solid without expansion correlation (bottom block target)
            out.append(_init(stack, hs, targets={"3": "duct"}))
            out.append(_init(stack, hs, targets={"1": "clad"}, fuel_mat="UraniumOxide", clad_mat="Inconel625", bond=True))
        else:
            out.append(_init(stack, hs, clad_mat="Custom", duct_mat="Custom"))
            out.append(_init(stack, hs, multi=True))  # fuel pin overlaps shield pin AND clad below: two candidates
            out.append(_init(stack, hs, shield_mult=19.0))  # pins of other multiplicity below: fuel block unlinked
            # thick pellets on a shield block that follows its cladding: hollow (not reaching the slug below) / solid
            out.append(_init(stack, hs, fat="hollow", targets={"0": "clad"}))
            out.append(_init(stack, hs, fat="solid", targets={"0": "clad"}))
            out.append(_init(stack, [10, 25, 10], targets={"0": "clad"}, thot="flat"))
            out.append(_init(stack, hs, targets={"1": "clad"}, fuel_mat="UraniumOxide", clad_mat="Inconel625", bond=True))
    return out


def nondummy(init):
    return [i for i, k in enumerate(S.kinds(init)) if k != "dummy"]


def alphabet(init):
    """Enabled operations (a function of the init only), simplest first."""
    nd = nondummy(init)
    if init["alpha"] == "edit":
        # cold-dimension edits of the fuel pellets between expansions: close / open the central hole (unlinked <->
        # linked with the slug below), fatten the pellet into the cladding below (two candidates: refused)
        fb = [i for i in nd if S.kinds(init)[i] == "fuel"]
        edits = [["setdim", i, "fuel", d, v] for i in fb for d, v in (("id", 0.0), ("id", 0.92), ("od", 1.05))]
        return [["presc", "clad", "u11"], ["presc", "solids", "u11"], ["presc", "fuel", "d11"], ["therm", "U550", 20]] + edits
    if init["alpha"] == "target":
        # re-designation of a block's target between expansions (every solid of the fuel block, the clad of block 0)
        fb = [i for i in nd if S.kinds(init)[i] == "fuel"]
        re_t = [["settarget", i, s_[0]] for i in fb for s_ in S.solids(init, "fuel")]
        # (only where block 0 has a cladding: a grid-plate block has none, and naming a missing component is a
        # harness error, not an expansion outcome)
        re_t += [["settarget", 0, "clad"]] if _is_solid(init, 0, "clad") else []
        return [["presc", "fuel", "u11"], ["presc", "clad", "u11"], ["therm", "U550", 20]] + re_t
    if init["alpha"] == "tiny":
        ops = [["presc", "fuel", f] for f in ("p1e9", "m1e9", "p1e6", "m1e6", "p2e6", "p1e4", "m1e4")]
        ops += [["presc", "solids", f] for f in ("p1e6", "p2e6", "m1e4")]
        ops += [["therm", S.FLAT_T + 1e-3, 20], ["therm", S.FLAT_T - 1e-3, 20], ["therm", S.FLAT_T + 0.2, 20]]
        ops += [["rep", 10, ["presc", "fuel", "p1e6"]], ["rep", 100, ["presc", "fuel", "p1e6"]], ["rep", 100, ["presc", "solids", "p1e9"]]]
        ops += [["stair", 10, 0.2], ["stair", 100, 1e-3]]
        return ops
    if init["alpha"] == "full":
        sets = ["fuel", "clad"] + ["blk%d" % i for i in nd] + ["solids", "opp"]
        facs = ["u11", "d11", "u9", "d9", "one"]
        therm = [["therm", "U550", 20], ["therm", "U350", 20], ["therm", "U450", 20], ["therm", "U0", 20], ["therm", "Um50", 20]]
        therm += [["therm", "ramp", 20], ["therm", "ramp", 50], ["therm", "ramp0up", 20], ["therm", "ramp0dn", 20], ["therm", "U550", 2]]
    else:
        # growth of the bottom block alone and of every solid (upper unlinked blocks must follow), fuel, clad;
        # heating, cooling to exactly 0.0 C, a ramp
        sets = ["fuel", "clad", "blk0", "solids"]
        facs = ["u11", "d11"]
        therm = [["therm", "U550", 20], ["therm", "U0", 20], ["therm", "ramp", 20]]
    return [["presc", s, f] for f in facs for s in sets] + therm


def set_factors(init, sname, fname):
    """{(block index, component name): growth factor} of a prescribed operation; read from the spec."""
    f = FACTORS[fname]
    out = {}
    for i in nondummy(init):
        for name, _shape, _mult, _lo, _hi in S.solids(init, S.kinds(init)[i]):
            if sname == "solids" or sname == "blk%d" % i or sname == name:
                out[(i, name)] = f
            elif sname == "opp" and name in ("fuel", "clad"):
                out[(i, name)] = f if name == "fuel" else FACTORS[INVERSE[fname]]
    return out


def uniform_T(fname):
    """Temperature of a uniform field (named, or given as a number), None for a ramp."""
    if isinstance(fname, (int, float)):
        return float(fname)
    return UNIFORM.get(fname)


def unroll(op):
    """Macro operations -> primitive operations (presc | therm | setdim)."""
    if op[0] == "rep":  # ["rep", k, primitive]: the same primitive k times
        return [op[2]] * int(op[1])
    if op[0] == "stair":  # ["stair", k, dT]: k uniform fields FLAT_T + dT, FLAT_T + 2 dT, ...
        return [["therm", S.FLAT_T + op[2] * (j + 1), 20] for j in range(int(op[1]))]
    return [op]


def field(fname, npts, htot):
    grid = [htot * k / (npts - 1) for k in range(npts)]
    if uniform_T(fname) is not None:
        vals = [uniform_T(fname)] * npts
    elif fname in RAMPS:
        lo, hi = RAMPS[fname]
        vals = [lo + (hi - lo) * z / htot for z in grid]
    else:
        raise ValueError(fname)
    return grid, vals


# ---------------------------------------------------------------------------------------------
# reference model


class Model:
    """Block stack: heights, per-solid linkage (cold dims from the spec), designated targets,
    temperatures. Trusted base: the material's linearExpansionPercent correlation (C03/C19)."""

    def __init__(self, init, mats):
        self.init = init
        self.kinds = S.kinds(init)
        self.n = len(self.kinds)
        self.H = [float(h) for h in init["heights"]]
        self.htot = sum(self.H)
        self.Z = [0.0]
        for h in self.H:
            self.Z.append(self.Z[-1] + h)
        self.dims = {}  # (i, component name, dimension) -> cold value edited since construction
        self.sol = [S.solids(init, k) if k != "dummy" else [] for k in self.kinds]
        self.target = [S.designated_target(init, i) for i in range(self.n)]  # CURRENT designation
        self.target_last = list(self.target)  # designation in force at the last expansion
        self.matname = {(i, c["name"]): c["material"] for i, k in enumerate(self.kinds) for c in S.block_table(init, k)}
        self.mats = mats  # {(i, name): material object}  (only linearExpansionPercent is used)
        self.T = {}
        for i, k in enumerate(self.kinds):
            for c in S.block_table(init, k):
                self.T[(i, c["name"])] = c["Thot"]
        self.relink()
        self.ever_foreign = [False] * self.n  # since the block's reference masses were (re)taken
        self.cz = {}  # (i, name) -> (zbottom, ztop) after the last step
        # expected mass of every solid relative to its reference mass, as the block model dictates:
        # each step multiplies it by (new block height / old block height) / own growth fraction
        self.mscale = {(i, s[0]): 1.0 for i in range(self.n) for s in self.sol[i]}
        self.snap = [(list(self.H), dict(self.mscale))]  # one per reached state

    def relink(self):
        """Linkage from the CURRENT cold dimensions: solid (i, name) -> name of the single linked solid in
        block i-1 (or None); ``multi`` if any solid has more than one candidate above or below."""
        self.sol = [S.solids(self.init, k, {(c, d): v for (i, c, d), v in self.dims.items() if i == bi}) if k != "dummy" else [] for bi, k in enumerate(self.kinds)]
        self.link = {}
        self.multi = None
        for i in range(self.n):
            for name, shape, mult, lo, hi in self.sol[i]:
                below = []
                if i > 0:
                    for n2, s2, m2, lo2, hi2 in self.sol[i - 1]:
                        if s2 == shape and m2 == mult and max(lo, lo2) < min(hi, hi2):
                            below.append(n2)
                above = []
                if i + 1 < self.n:
                    for n2, s2, m2, lo2, hi2 in self.sol[i + 1]:
                        if s2 == shape and m2 == mult and max(lo, lo2) < min(hi, hi2):
                            above.append(n2)
                if len(below) > 1 or len(above) > 1:
                    self.multi = (i, name, below, above)  # more than one candidate: linkage must be refused
                self.link[(i, name)] = below[0] if below else None

    def own_chain(self, i):
        """True: block i's bottom is carried by its own target's chain."""
        if i == 0:
            return True
        L = self.link.get((i, self.target[i]))
        return L is None or L == self.target[i - 1]

    def elevations(self):
        return list(self.Z)

    def predict_restack(self, g):
        """g: {(i,name): factor} (missing = 1.0). Returns ("ok", newH, cz, newZ) or ("refused:ArithmeticError", ...)."""
        newH, cz, newZ = [], {}, [0.0]
        ztop_below = 0.0
        for i in range(self.n):
            zb = ztop_below
            if i == self.n - 1:
                zt = self.htot
            else:
                zt = None
                for name, _s, _m, _lo, _hi in self.sol[i]:
                    h = g.get((i, name), 1.0) * self.H[i]
                    L = self.link[(i, name)]
                    czb = 0.0 if i == 0 else (cz[(i - 1, L)][1] if L is not None else zb)
                    cz[(i, name)] = (czb, czb + h)
                    if name == self.target[i]:
                        zt = czb + h
            newH.append(zt - zb)
            newZ.append(zt)
            if zt - zb < 0.0:
                return "refused:ArithmeticError", None, None, None
            ztop_below = zt
        return "ok", newH, cz, newZ

    def predict(self, op):
        """Returns a dict describing the expected effect of ``op`` (heights etc. are committed by ``commit``)."""
        if op[0] == "setdim":
            return {"out": "ok", "edit": (op[1], op[2], op[3], float(op[4])), "g": {}}
        if op[0] == "settarget":
            return {"out": "ok", "retarget": (op[1], op[2]), "g": {}}
        self.relink()  # before every expansion
        if self.multi:
            return {"out": "refused:RuntimeError", "why": "multi", "g": {}}
        if op[0] == "presc":
            g = set_factors(self.init, op[1], op[2])
            out, newH, cz, newZ = self.predict_restack(g)
            return {"out": out, "g": g, "H": newH, "cz": cz, "Z": newZ, "T": None}
        grid, vals = field(op[1], op[2], self.htot)
        z = self.elevations()
        newT = {}
        for i in range(self.n):
            inside = [v for zz, v in zip(grid, vals) if z[i] <= zz <= z[i + 1]]
            if not inside:
                return {"out": "refused:ValueError", "g": {}, "T": newT}
            t = statistics.mean(inside)
            for (j, name) in self.T:
                if j == i:
                    newT[(j, name)] = float(t)
        g = {}
        for i in range(self.n - 1):
            for name, _s, _m, _lo, _hi in self.sol[i]:
                if self.matname[(i, name)] in S.NOCORR and abs(newT[(i, name)] - self.T[(i, name)]) > 1e-10:
                    # no expansion correlation: a temperature change is refused (after the temperatures were assigned)
                    return {"out": "refused:RuntimeError", "why": "nocorr", "g": {}, "T": newT}
        for i in range(self.n - 1):
            for name, _s, _m, _lo, _hi in self.sol[i]:
                if self.matname[(i, name)] == S.CUSTOM or self.matname[(i, name)] in S.NOCORR:
                    g[(i, name)] = 1.0  # custom materials never expand thermally
                    continue
                mat = self.mats[(i, name)]
                p1 = mat.linearExpansionPercent(Tc=newT[(i, name)])
                p0 = mat.linearExpansionPercent(Tc=self.T[(i, name)])
                g[(i, name)] = (100.0 + p1) / (100.0 + p0)
        out, newH, cz, newZ = self.predict_restack(g)
        return {"out": out, "g": g, "H": newH, "cz": cz, "Z": newZ, "T": newT}

    def commit(self, pred):
        if pred.get("edit") or pred.get("retarget"):
            if pred.get("edit"):
                i, cname, dim, val = pred["edit"]
                self.dims[(i, cname, dim)] = val
            else:
                i, cname = pred["retarget"]
                self.target[i] = cname
            for k in self.mscale:  # the block's reference masses are re-taken by the driver
                if k[0] == i:
                    self.mscale[k] = 1.0
            self.ever_foreign[i] = False
            self.snap.append((list(self.H), dict(self.mscale)))
            return
        if pred.get("T"):
            self.T.update(pred["T"])
        if pred["out"] == "ok":
            for (i, name) in self.mscale:
                self.mscale[(i, name)] *= (pred["H"][i] / self.H[i]) / pred["g"].get((i, name), 1.0)
            self.H = pred["H"]
            self.Z = pred["Z"]
            self.cz = pred["cz"]
            self.target_last = list(self.target)
            for i in range(self.n - 1):
                if not self.own_chain(i):
                    self.ever_foreign[i] = True
            self.snap.append((list(self.H), dict(self.mscale)))


# ---------------------------------------------------------------------------------------------
# driving and observing the real objects


def observe(a, init):
    """Plain-data observation of a real assembly through public queries / parameters."""
    blocks = []
    for i, b in enumerate(a):
        comps = []
        for c in b:
            comps.append(
                {
                    "name": c.name,
                    "T": float(c.temperatureInC),
                    "mass": float(c.getMass()),
                    "nd": {k: float(v) for k, v in c.getNumberDensities().items()},
                    "zb": None if getattr(c, "zbottom", None) is None else float(c.zbottom),
                    "zt": None if getattr(c, "ztop", None) is None else float(c.ztop),
                    "h": None if getattr(c, "height", None) is None else float(c.height),
                }
            )
        loc = b.spatialLocator
        blocks.append(
            {
                "zb": float(b.p.zbottom),
                "zt": float(b.p.ztop),
                "h": float(b.getHeight()),
                "z": float(b.p.z),
                "target": b.p.axialExpTargetComponent or None,
                "k": int(loc.k),
                "loc_on_grid": loc.grid is a.spatialGrid,
                "loc_z": float(loc.getLocalCoordinates()[2]),
                "cell": [float(a.spatialGrid.getCellBase((0, 0, i))[2]), float(a.spatialGrid.getCellTop((0, 0, i))[2])],
                "comps": comps,
            }
        )
    return {
        "blocks": blocks,
        "bounds": [float(x) for x in a.spatialGrid._bounds[2]],
        "mesh": [float(x) for x in a.getAxialMesh()],
        "total": float(a.getTotalHeight()),
    }


def apply_op(a, init, op, changer):
    """One call of the real API. Returns the outcome label."""
    import numpy as np

    from armi.reactor.converters.axialExpansionChanger.expansionData import iterSolidComponents

    try:
        if op[0] == "setdim":
            a[op[1]].getComponentByName(op[2]).setDimension(op[3], float(op[4]))
        elif op[0] == "settarget":
            a[op[1]].setAxialExpTargetComp(a[op[1]].getComponentByName(op[2]))
        elif op[0] == "presc":
            g = set_factors(init, op[1], op[2])
            comps, percents = [], []
            for i, b in enumerate(a):
                for c in iterSolidComponents(b):
                    if (i, c.name) in g:
                        comps.append(c)
                        percents.append(g[(i, c.name)])
            changer.performPrescribedAxialExpansion(a, comps, percents)
        else:
            grid, vals = field(op[1], op[2], sum(init["heights"]))
            changer.performThermalAxialExpansion(a, np.array(grid), np.array(vals))
    except (ArithmeticError, ValueError) as e:
        return "refused:" + type(e).__name__
    except RuntimeError as e:  # the documented refusal of ambiguous linkage (expected only where the model says so)
        documented = "Multiple component axial linkages" in str(e) or "Linear expansion percent may not be implemented" in str(e)
        return "refused:RuntimeError" if documented else "error:RuntimeError:%s" % str(e)[:120]
    except Exception as e:  # noqa: BLE001 - anything else is reported, never swallowed
        return "error:%s:%s" % (type(e).__name__, str(e)[:120])
    return "ok"


def canon(ob, dims=None, targets=None):
    def r(x):
        return float("%.9e" % x)

    return [[r(b["h"])] + [[r(c["T"]), r(sum(c["nd"].values()))] for c in b["comps"]] for b in ob["blocks"]] + [sorted([list(k), v] for k, v in (dims or {}).items()), list(targets or [])]


# ---------------------------------------------------------------------------------------------
# oracle


def _opname(op):
    if op[0] == "rep":
        return "%dx%s" % (op[1], _opname(op[2]))
    return "%s(%s)" % (op[0], ",".join(str(x) for x in op[1:]))


def _is_solid(init, i, name):
    return any(name == s[0] for s in S.solids(init, S.kinds(init)[i])) if S.kinds(init)[i] != "dummy" else False


def check_invariants(init, m, ob, ref, case, nsteps):
    """Invariants of the property on one observed state. ``ref``: {(block, component): reference mass}
    (initial masses; re-taken for a block whose cold dimensions were edited); ``nsteps``: expansions so far."""
    vs = []
    hist = case["hist"]

    def bad(key, msg):
        vs.append(core.viol("c12/" + key, "%s after %s: %s" % (_short(init), [_opname(o) for o in hist], msg), case))

    B = ob["blocks"]
    n = len(B)
    htot0 = sum(init["heights"])
    # structure agrees with the spec
    for i, b in enumerate(B):
        if [c["name"] for c in b["comps"]] != S.all_names(init, S.kinds(init)[i]):
            bad("structure", "block %d components %s differ from the spec" % (i, [c["name"] for c in b["comps"]]))
            return vs
    # total height
    if not _rel(ob["total"], htot0, 1e-12) or not _rel(B[-1]["zt"], htot0, 1e-12):
        bad("total-height", "total height %r / top of the top block %r, initially %r" % (ob["total"], B[-1]["zt"], htot0))
    # contiguity, positivity
    if B[0]["zb"] != 0.0:
        bad("contiguity", "bottom block starts at %r" % B[0]["zb"])
    for i in range(n):
        if i + 1 < n and not _rel(B[i + 1]["zb"], B[i]["zt"], 1e-13):
            bad("contiguity", "block %d bottom %r != top %r of block %d" % (i + 1, B[i + 1]["zb"], B[i]["zt"], i))
        if abs(B[i]["h"] - (B[i]["zt"] - B[i]["zb"])) > 1e-12 * htot0:
            bad("contiguity", "block %d height %r != ztop-zbottom %r" % (i, B[i]["h"], B[i]["zt"] - B[i]["zb"]))
        if not B[i]["h"] > 0.0:
            bad("nonpositive-height", "block %d has height %r" % (i, B[i]["h"]))
        if abs(B[i]["z"] - 0.5 * (B[i]["zb"] + B[i]["zt"])) > 1e-12 * htot0:
            bad("block-midpoint", "block %d p.z %r is not the mid-plane of [%r,%r]" % (i, B[i]["z"], B[i]["zb"], B[i]["zt"]))
    # axial grid bounds == elevations (bounds array, cell queries, mesh, locators)
    want = [B[0]["zb"]] + [b["zt"] for b in B]
    if len(ob["bounds"]) != n + 1 or any(abs(x - y) > 1e-12 * htot0 for x, y in zip(ob["bounds"], want)):
        bad("grid-bounds", "axial grid bounds %s != block elevations %s" % (ob["bounds"], want))
    if len(ob["mesh"]) != n or any(abs(x - y) > 1e-12 * htot0 for x, y in zip(ob["mesh"], want[1:])):
        bad("grid-bounds", "getAxialMesh %s != block tops %s" % (ob["mesh"], want[1:]))
    for i, b in enumerate(B):
        if b["k"] != i or not b["loc_on_grid"]:
            bad("grid-locator", "block %d sits at axial index %s (on the assembly grid: %s)" % (i, b["k"], b["loc_on_grid"]))
        if abs(b["cell"][0] - b["zb"]) > 1e-12 * htot0 or abs(b["cell"][1] - b["zt"]) > 1e-12 * htot0:
            bad("grid-bounds", "grid cell %d spans %s, block spans [%r,%r]" % (i, b["cell"], b["zb"], b["zt"]))
        if abs(b["loc_z"] - 0.5 * (b["zb"] + b["zt"])) > 1e-12 * htot0:
            bad("grid-bounds", "locator of block %d at z=%r, block mid-plane %r" % (i, b["loc_z"], 0.5 * (b["zb"] + b["zt"])))
    if nsteps:
        for i in range(n - 1):
            b = B[i]
            # designated target, block top == target top
            if b["target"] != m.target[i]:
                bad("target-designation", "block %d target %r, designated %r" % (i, b["target"], m.target[i]))
                continue
            cmap = {c["name"]: c for c in b["comps"]}
            t = cmap[m.target_last[i]]
            if t["zt"] is None or not _rel(t["zt"], b["zt"], 1e-13):
                bad("block-top-not-target", "block %d top %r, its target (at the last expansion) %s top %r" % (i, b["zt"], m.target_last[i], t["zt"]))
            # linked components stay stacked bottom-on-top
            for name, _s, _mu, _lo, _hi in m.sol[i]:
                c = cmap[name]
                if c["zb"] is None or c["zt"] is None or c["h"] is None:
                    bad("linked-stacking", "solid %s of block %d has no elevations" % (name, i))
                    continue
                L = m.link[(i, name)]
                if i == 0:
                    wantb, what = 0.0, "0"
                elif L is not None:
                    wantb, what = [x for x in B[i - 1]["comps"] if x["name"] == L][0]["zt"], "top of linked %s below" % L
                else:
                    wantb, what = b["zb"], "block bottom (nothing linked below)"
                if wantb is None or not _rel(c["zb"], wantb, 1e-13):
                    bad("linked-stacking", "%s of block %d: bottom %r, expected %s = %r" % (name, i, c["zb"], what, wantb))
                if not _rel(c["zt"], c["zb"] + c["h"], 1e-13):
                    bad("linked-stacking", "%s of block %d: top %r != bottom+height %r" % (name, i, c["zt"], c["zb"] + c["h"]))
    # target mass below the dummy equals its initial value
    for i in range(n - 1):
        tname = m.target[i]
        now = [c for c in B[i]["comps"] if c["name"] == tname][0]["mass"]
        was = ref[(i, tname)]
        if not _rel(now, was, TOL):
            if not m.ever_foreign[i]:
                bad("target-mass", "block %d (%s) target %s mass %.12g, initially %.12g (ratio %.12g); its bottom is carried by its own chain" % (i, S.kinds(init)[i], tname, now, was, now / was))
            elif not _rel(now / was, m.mscale[(i, tname)], TOL_GEOM):
                bad("target-mass", "block %d (%s) target %s mass %.12g, initially %.12g (ratio %.12g); the block-model geometry (bottom on a foreign chain) accounts for a ratio of %.12g only" % (i, S.kinds(init)[i], tname, now, was, now / was, m.mscale[(i, tname)]))
            else:
                bad(
                    "target-mass-foreign-bottom-chain",
                    "block %d (%s) target %s mass %.12g, initially %.12g (ratio %.10f); the target is linked to non-target %s of block %d whose target is %s"
                    % (i, S.kinds(init)[i], tname, now, was, now / was, m.link[(i, tname)], i - 1, m.target[i - 1]),
                )
    return vs


def check_step(init, m, pred, before, after, case, op):
    """The last primitive step ``op`` against the reference model."""
    vs = []
    hist = case["hist"]

    def bad(key, msg):
        vs.append(core.viol("c12/" + key, "%s after %s: %s" % (_short(init), [_opname(o) for o in hist], msg), case))

    n = m.n
    if op[0] in ("setdim", "settarget"):  # a geometry edit / re-designation moves nothing
        for i in range(n):
            b0, b1 = before["blocks"][i], after["blocks"][i]
            if (b0["zb"], b0["zt"], b0["h"]) != (b1["zb"], b1["zt"], b1["h"]) or before["bounds"] != after["bounds"]:
                bad("edit-moved-mesh", "block %d moved under a cold-dimension edit" % i)
        return vs
    # heights predicted by the model
    z = m.elevations()
    for i in range(n):
        b = after["blocks"][i]
        if abs(b["zb"] - z[i]) > TOL * m.htot or abs(b["zt"] - z[i + 1]) > TOL * m.htot:
            bad("model-heights", "block %d spans [%r,%r], reference model [%r,%r]" % (i, b["zb"], b["zt"], z[i], z[i + 1]))
    g = pred["g"]
    for i in range(n):
        kind = S.kinds(init)[i]
        solids = [s[0] for s in m.sol[i]]
        bmap = {c["name"]: c for c in before["blocks"][i]["comps"]}
        for c in after["blocks"][i]["comps"]:
            c0 = bmap[c["name"]]
            if op[0] == "presc":
                f = 1.0 / g[(i, c["name"])] if (i, c["name"]) in g else 1.0
                for nuc, v in c["nd"].items():
                    if not _rel(v, c0["nd"][nuc] * f, TOL_N):
                        bad("density-update", "%s of block %d: N(%s) %r, expected %r = previous/%r" % (c["name"], i, nuc, v, c0["nd"][nuc] * f, 1.0 / f))
                        break
                if c["T"] != c0["T"]:
                    bad("temperature-changed", "%s of block %d: temperature %r -> %r under a prescribed expansion" % (c["name"], i, c0["T"], c["T"]))
            else:
                if abs(c["T"] - m.T[(i, c["name"])]) > 1e-9:
                    bad("temperature-field", "%s of block %d at %r C, block average of the field is %r" % (c["name"], i, c["T"], m.T[(i, c["name"])]))
        # uniform growth of all solids of a block conserves every solid's mass
        if kind != "dummy" and solids:
            fs = set(g.get((i, s), 1.0) for s in solids)
            if len(fs) == 1:
                amap = {c["name"]: c for c in after["blocks"][i]["comps"]}
                for s in solids:
                    if not _rel(amap[s]["mass"], bmap[s]["mass"], TOL):
                        geom = m.snap[-1][1][(i, s)] / m.snap[-2][1][(i, s)]
                        foreign = (not m.own_chain(i)) and _rel(amap[s]["mass"] / bmap[s]["mass"], geom, TOL_GEOM)
                        key = "uniform-growth-mass-foreign-bottom-chain" if foreign else "uniform-growth-mass"
                        bad(key, "all solids of block %d (%s) grew by %r, mass of %s went %.12g -> %.12g (ratio %.10f)" % (i, kind, list(fs)[0], s, bmap[s]["mass"], amap[s]["mass"], amap[s]["mass"] / bmap[s]["mass"]))
                        break
    return vs


def _restore_partner(init, hist, outs):
    """Index j of the earlier state the final state must equal, or None."""
    n = len(hist)
    if n < 1 or any(o != "ok" for o in outs):
        return None
    last = hist[-1]
    if last[0] == "presc":
        if n >= 2 and hist[-2][0] == "presc" and hist[-2][1] == last[1] and INVERSE[hist[-2][2]] == last[2]:
            return n - 2
        return None
    if last[0] != "therm" or uniform_T(last[1]) is None:
        return None
    # thermal: nearest earlier state that is the same uniform temperature state with only thermal steps since
    for j in range(n - 2, -1, -1):
        if hist[j][0] != "therm":  # op j+1 (0-based j) must be thermal
            return None
        if j == 0:
            return 0 if (init["thot"] == "flat" and uniform_T(last[1]) == S.FLAT_T) else None
        prev = hist[j - 1]
        if prev[0] == "therm" and uniform_T(prev[1]) is not None and uniform_T(prev[1]) == uniform_T(last[1]):
            return j
    return None


def check_restore(init, m, a_ob, b_ob, j, case):
    vs = []
    hist = case["hist"]

    def bad(key, msg):
        vs.append(core.viol("c12/" + key, "%s after %s: %s" % (_short(init), [_opname(o) for o in hist], msg), case))

    for i in range(m.n - 1):
        # class (b) only if the block model itself says this block is not restored
        model_restored = _rel(m.snap[-1][0][i], m.snap[j][0][i], TOL) and all(_rel(m.snap[-1][1][k], m.snap[j][1][k], TOL) for k in m.snap[j][1] if k[0] == i)
        key = "inverse-restore" if (m.own_chain(i) or model_restored) else "inverse-restore-foreign-bottom-chain"
        A, Bk = a_ob["blocks"][i], b_ob["blocks"][i]
        if not _rel(A["h"], Bk["h"], TOL):
            bad(key, "block %d height %r, before the step and its inverse (state %d) %r" % (i, A["h"], j, Bk["h"]))
            continue
        for c, c0 in zip(A["comps"], Bk["comps"]):
            if not _rel(c["mass"], c0["mass"], TOL) or c["T"] != c0["T"] or any(not _rel(v, c0["nd"][k], TOL) for k, v in c["nd"].items()):
                bad(key, "%s of block %d: mass/T/N %r/%r/%r, before the step and its inverse (state %d) %r/%r/%r" % (c["name"], i, c["mass"], c["T"], sum(c["nd"].values()), j, c0["mass"], c0["T"], sum(c0["nd"].values())))
                break
    return vs


def _short(init):
    d = {k: v for k, v in init.items() if k not in ("alpha", "reuse") and v not in (False, {}, None)}
    return json.dumps(d, sort_keys=True)


# ---------------------------------------------------------------------------------------------
# expansion of one history (runs in a worker)


def expand(item):
    from armi.reactor.converters.axialExpansionChanger import AxialExpansionChanger

    init, hist, outs = item["init"], item["hist"], item["outs"]
    case = {"init": init, "hist": hist, "outs": outs}
    a = S.assembly(init, seed=env.seed())
    twin = S.assembly(init, seed=env.seed()) if init.get("reuse") else None
    reused = AxialExpansionChanger(detailedAxialExpansion=True)
    mats = {(i, c.name): c.material for i, b in enumerate(a) for c in b}
    m = Model(init, mats)
    obs = {0: observe(a, init)}  # primitive-state index -> observation (the state after every operation, and the
    #                              last three primitive states of the last operation)
    ref = {(i, c["name"]): c["mass"] for i, b in enumerate(obs[0]["blocks"]) for c in b["comps"]}
    viols = []
    out = "ok"
    pred = None
    prim_hist, n_exp = [], 0
    hs = [_opname(o) for o in hist]
    for k, op in enumerate(hist):
        last = k == len(hist) - 1
        prims = unroll(op)
        out = "ok"
        for q, prim in enumerate(prims):
            pred = m.predict(prim)
            pout = apply_op(a, init, prim, AxialExpansionChanger(detailedAxialExpansion=True))
            prim_hist.append(prim)
            if twin is not None:
                out2 = apply_op(twin, init, prim, reused)
                if last and q == len(prims) - 1 and (out2 != pout or (pout == "ok" and observe(twin, init) != observe(a, init))):
                    viols.append(core.viol("c12/changer-reuse", "%s after %s: a reused changer gives %s / a different state than a new changer per operation (%s)" % (_short(init), hs, out2, pout), case))
            if pout != pred["out"]:
                if not last:
                    raise RuntimeError("prefix replay: model/implementation outcome mismatch went unreported at step %d of %s" % (k, hist))
                kind = "unexpected-exception" if pout.startswith("error") else ("contract-negative-height" if "ArithmeticError" in (pout + pred["out"]) else "contract")
                viols.append(core.viol("c12/" + kind, "%s after %s (primitive %d): outcome %s, the reference model expects %s" % (_short(init), hs, q, pout, pred["out"]), case))
                return {"canon": ["diverged", hist], "full": None, "viols": viols, "ops": [], "out": pout, "terminal": True}
            m.commit(pred)
            out = pout
            if pout != "ok":
                break
            if prim[0] not in ("setdim", "settarget"):
                n_exp += 1
            if q == len(prims) - 1 or (last and q >= len(prims) - 3):
                obs[len(prim_hist)] = observe(a, init)
            if prim[0] in ("setdim", "settarget"):
                now = obs.get(len(prim_hist)) or observe(a, init)
                for c in now["blocks"][prim[1]]["comps"]:
                    ref[(prim[1], c["name"])] = c["mass"]
        if k < len(outs) and out != outs[k]:
            raise RuntimeError("prefix replay diverged at step %d of %s: %s, recorded %s" % (k, hist, out, outs[k]))
        if out != "ok":
            break
    np_ = len(prim_hist)
    if out != "ok":
        # a refusal: ArithmeticError leaves a partially restacked assembly (documented abort) - not examined;
        # ValueError (a block without temperature points) must not have moved anything
        prev = obs.get(np_ - 1)
        if (out == "refused:ValueError" or (out == "refused:RuntimeError" and pred.get("why") == "nocorr")) and prev is not None:
            # temperatures may have been assigned before the refusal (a component without correlation then sits at a
            # temperature it cannot be evaluated at: its mass query raises) - only mesh and temperatures are read
            mesh = [(float(b.p.zbottom), float(b.p.ztop)) for b in a]
            if mesh != [(b0["zb"], b0["zt"]) for b0 in prev["blocks"]] or [float(x) for x in a.spatialGrid._bounds[2]] != prev["bounds"]:
                viols.append(core.viol("c12/refusal-moved-mesh", "%s after %s: refused (%s) but the mesh moved" % (_short(init), hs, out), case))
            temps_changed = any(float(c.temperatureInC) != c0["T"] for b, b0 in zip(a, prev["blocks"]) for c, c0 in zip(b, b0["comps"]))
            return {"canon": ["refused", hist], "full": None, "viols": viols, "ops": [], "out": out, "terminal": True, "partial_T": temps_changed and out == "refused:ValueError"}
        if out == "refused:RuntimeError" and pred.get("why") == "multi" and prev is not None and observe(a, init) != prev:
            viols.append(core.viol("c12/refusal-changed-state", "%s after %s: ambiguous linkage refused with RuntimeError but the assembly changed" % (_short(init), hs), case))
        return {"canon": ["refused", hist], "full": None, "viols": viols, "ops": [], "out": out, "terminal": True}
    viols += check_invariants(init, m, obs[np_], ref, case, n_exp)
    j = None
    if prim_hist:
        viols += check_step(init, m, pred, obs[np_ - 1], obs[np_], case, prim_hist[-1])
        j = _restore_partner(init, prim_hist, ["ok"] * np_)
        if j is not None and j in obs:
            viols += check_restore(init, m, obs[np_], obs[j], j, case)
        else:
            j = None
    return {"canon": canon(obs[np_], m.dims, m.target), "full": None, "viols": viols, "ops": alphabet(init), "out": out, "restore_checked": j is not None}


def evaluate(case):
    return expand({"init": case["init"], "hist": case["hist"], "outs": case["outs"]})["viols"]


# ---------------------------------------------------------------------------------------------
# search (explore.bfs stops extending a state that carries any violation; here the structural
# class (b) must not cut the search, so the level loop is restated with that one difference)


def _bfs(ctx, inits, depth, stored):
    seen = {}
    frontier = [{"init": init, "hist": [], "outs": [], "_i": i} for i, init in enumerate(inits)]
    st = {"states": 0, "transitions": 0, "traces": 0, "levels": [], "closure": False, "ops": {}, "outcomes": {}, "capped": False}
    for d in range(depth + 1):
        if not frontier:
            st["closure"] = True
            break
        frontier = frontier if d == 0 else ctx.order(frontier)
        res = core.pmap(MOD, "expand", [{k: v for k, v in it.items() if k != "_i"} for it in frontier])
        nxt, new = [], 0
        for it, r in zip(frontier, res):
            st["traces"] += 1
            if it["hist"]:
                st["transitions"] += 1
                opn = it["hist"][-1][0] + ":" + str(it["hist"][-1][1])
                st["ops"][opn] = st["ops"].get(opn, 0) + 1
                lab = ":".join(r["out"].split(":")[:2])
                st["outcomes"][lab] = st["outcomes"].get(lab, 0) + 1
            if r.get("restore_checked"):
                ctx.count("inverse_pairs_checked")
            if r.get("partial_T"):
                ctx.count("refusal_ValueError_partial_temperature_update")
            hard = False
            for v in r["viols"]:
                ctx.count("viol_" + v["key"])
                if v["key"] not in SOFT_KEYS:
                    hard = True
                if stored.get(v["key"], 0) < MAX_STORED_PER_KEY:
                    stored[v["key"]] = stored.get(v["key"], 0) + 1
                    ctx.add_violations([v])
            k = (it["_i"], json.dumps(r["canon"], sort_keys=True))
            if k in seen:
                continue
            seen[k] = it["hist"]
            new += 1
            st["states"] += 1
            if len(ctx.samples) < 4 and len(it["hist"]) == d and d >= 1 and len(ctx.samples) < d:
                ctx.samples.append({"init": _short(it["init"]), "history": it["hist"], "outcomes": it["outs"] + [r["out"]]})
            if d < depth and not r.get("terminal") and not hard:
                outs = it["outs"] + ([r["out"]] if it["hist"] else [])
                for op in r["ops"]:
                    nxt.append({"init": it["init"], "hist": it["hist"] + [op], "outs": outs, "_i": it["_i"]})
        st["levels"].append({"depth": d, "executed": len(frontier), "new_states": new})
        ctx.log("depth %d: executed %d histories, %d new canonical states, next frontier %d" % (d, len(frontier), new, len(nxt)))
        frontier = nxt
    # closure: the last level reached no new canonical state (not expected at these depths)
    st["closure"] = bool(st["levels"]) and st["levels"][-1]["new_states"] == 0
    return st


def plan(ctx):
    """[(label, inits, depth)] - the enumeration bounds, in one place."""
    base = base_inits()

    def with_alpha(inits, alpha):
        return [dict(i, alpha=alpha) for i in inits]

    # SFD base, SFD fuel->clad target, GFFPD base (also with one reused changer), GFFPD upper fuel->duct target
    g0 = [i for i, b in enumerate(base) if b["stack"] == "GFFPD"][0]  # GFFPD base; g0+5: upper fuel block -> duct target
    core4 = [base[0], base[4], dict(base[g0], reuse=True), base[g0 + 5]]
    fat = [b for b in base if b.get("fat")]
    flat = [b for b in base if b["thot"] == "flat" and not b["targets"]]  # SFD flat, GFFPD flat
    if ctx.quick:
        rest = [b for i, b in enumerate(base) if i not in (0, 4, g0, g0 + 5)]
        return [
            ("all inits x full alphabet, depth 1", with_alpha(base, "full"), 1),
            ("4 inits x reduced alphabet, depth 3", with_alpha(core4, "reduced"), 3),
            ("other inits x reduced alphabet, depth 2", with_alpha(rest, "reduced"), 2),
            ("SFD base x full alphabet, depth 2, twin with one reused changer", with_alpha([dict(base[0], reuse=True)], "full"), 2),
            ("GFFPD base x full alphabet, depth 2", with_alpha([base[g0]], "full"), 2),
            ("fat-pellet inits x edit alphabet (cold-dimension edits between expansions), depth 3", with_alpha(fat, "edit"), 3),
            ("SFD flat x tiny-step alphabet (incl. 10x/100x repetition), depth 2", with_alpha(flat[:1], "tiny"), 2),
            ("GFFPD base x tiny-step alphabet, depth 1", with_alpha([base[g0]], "tiny"), 1),
            ("SFD base and SFD clad-driven x target re-designation alphabet, depth 3", with_alpha([base[0], base[4]], "target"), 3),
        ]
    return [
        ("all inits x full alphabet, depth 2", with_alpha([dict(b, reuse=(i % 2 == 0)) for i, b in enumerate(base)], "full"), 2),
        ("all inits x reduced alphabet, depth 4", with_alpha(base, "reduced"), 4),
        ("SFD base x full alphabet, depth 3, twin with one reused changer", with_alpha([dict(base[0], reuse=True)], "full"), 3),
        ("fat-pellet inits x edit alphabet, depth 4", with_alpha(fat, "edit"), 4),
        ("4 inits x target re-designation alphabet, depth 4", with_alpha([base[0], base[4], base[g0], base[g0 + 4]], "target"), 4),
        ("4 inits x tiny-step alphabet, depth 2", with_alpha(flat + [base[0], base[g0]], "tiny"), 2),
    ]


def run(ctx):
    total = {}
    stored = {}
    searches = []
    for label, inits, depth in plan(ctx):
        ctx.log("search: %s (%d inits)" % (label, len(inits)))
        st = _bfs(ctx, inits, depth, stored)
        explore.merge_stats(total, st)
        searches.append({"search": label, "inits": len(inits), "depth": depth, "states": st["states"], "transitions": st["transitions"]})
    explore.finish(
        ctx,
        total,
        extra={
            "plan": searches,
            "initial_states": len(base_inits()),
            "alphabet_sizes": {"full": sorted(set(len(alphabet(dict(b, alpha="full"))) for b in base_inits())), "reduced": len(alphabet(dict(base_inits()[0], alpha="reduced")))},
            "max_depth": max(d for _l, _i, d in plan(ctx)),
            # every history up to the stated depth over the stated alphabet was executed (modulo canonical
            # merging); "closure" per search says whether the last level still found new states (it does)
            "exhaustive": True,
            "exhaustive_within": "history depth bound per search (see plan); state spaces are infinite, no closure",
        },
    )
    ctx.assumptions += [
        "finite init family (two block stacks, heights 10/25, UZr|UraniumOxide x HT9|Inconel625, bond, explicit clad/duct targets) and finite factor/temperature alphabets (DESIGN 1.4); histories up to the stated depth",
        "thermal growth fractions of the reference model use the material's linearExpansionPercent correlation (trusted base, C03/C19)",
        "after ArithmeticError (a block would get negative height) the partially restacked assembly is not examined",
        "fluid masses are not constrained (the property speaks of solid components); canonical state = block heights, temperatures, summed number densities at 9 digits",
    ]
