"""C17 - case settings survive a write/read cycle and reject what they cannot hold.

Deviation-bounded configuration enumeration on the real ``armi.settings`` code.  The settings are
discovered at run time from ``Settings()`` (framework + every registered plug-in).  For each one a
value alphabet is derived from its definition (default, options, the tree of its schema; see
``c17_ref.alphabet``) and every configuration with 1 deviation from "all defaults" (quick, plus all
pairs inside the interacting groups) or 2 deviations (thorough: all pairs of all settings over reduced
alphabets, wider alphabets and triples inside the groups) is executed:

* ``dev``    assign -> write in styles short / medium / full -> read into a fresh ``Settings``:
             acceptance and stored value against the reference interpreter of the schema
             (``c17_ref.ref``), refusal leaves every setting as it was, key set per style, every setting
             equal after the read, the write does not alter the source;
* ``doc``    the same value arriving from a hand-written flow-style document (no armi writer, no ruamel
             emitter): same acceptance and stored value as assignment; a refused read keeps the value
             the setting had;
* ``rename`` every (oldName -> name) pair: a document using the old name sets the new one;
* ``copy``   ``modified()`` / ``duplicate()`` / ``deepcopy`` / pickle copies, changed by assignment or in
             place: the original keeps every value, the copy holds what was assigned and round-trips;
* ``alias``  a mutable value handed over in every form the API accepts (plain data, the Setting object,
             the live value object of another Settings, getSetting, duplicate, deepcopy, pickle), then
             changed in place on one side through every mutator of its type: the other side is unchanged;
* ``plugin`` options / defaults contributed by a (test) plug-in to every setting with options and to
             synthetic plug-in settings (incl. an initially empty enforced list, both hook orders): the
             valid/invalid oracle and the round trip run against the extended definition;
* ``file``   the file-based route (``writeToYamlFile`` / ``Settings(fName)`` / medium style re-write);
* ``chars``  every code point U+0001..U+017F (+ separators, BOM, non-characters, astral) in four contexts
             through one text-typed and one list-typed setting (short style);
* ``renamer`` / ``collision`` the rename rules on synthetic settings: every list of 1-3 old names over
             {no expiry, expired, expiring today, future} in every order x which name(s) a document uses,
             judged per old name; two settings sharing an old name.

A *case* is pure JSON; ``evaluate(case)`` re-executes it from nothing.
"""
import io
import itertools
import os
import re

from mcverif import core, env
from mcverif.checks import c17_ref as R

PROPERTY = "C17"
LEVEL = "exploration"
MOD = "mcverif.checks.c17"
STYLES = ("short", "medium", "full")

# enumeration bounds, in one place ---------------------------------------------------------------
BOUNDS = {
    "quick": dict(full_vals=3, full_pairs=False, pair_all=None, pair_group=(3, 1), pair_lists=(2, 1), triples=None, copy_vals=2, doc_pre=True),
    "thorough": dict(full_vals=None, full_pairs=True, pair_all=(2, 1), pair_group=(6, 2), pair_lists=(4, 1), triples=(2, 0), copy_vals=6, doc_pre=True),
}
BATCH = 24


# ---------------------------------------------------------------------------------------------
# helpers running against the real code


def _new():
    from armi import settings

    return settings.Settings()


def _snap(cs):
    """name -> canonical value, read from the Setting objects (``cs[name]`` refuses the simple cycle
    inputs while ``cycles`` is set, which is not what is observed here)."""
    return {n: R.canon_setting(n, s.value) for n, s in cs.items()}


def _defaults(cs):
    return {n: R.canon_setting(n, s.default) for n, s in cs.items()}


def _diff(a, b, skip=()):
    return sorted(n for n in set(a) | set(b) if n not in skip and a.get(n) != b.get(n))


def _short(c, n=160):
    s = repr(c)
    return s if len(s) <= n else s[: n - 3] + "..."


def _doc_keys(text):
    from ruamel.yaml import YAML

    tree = YAML(typ="safe").load(text)
    return tree, list(tree["settings"].keys())


def _write(cs, style, by_user=()):
    s = io.StringIO()
    cs.writeToYamlStream(s, style, list(by_user))
    return s.getvalue()


def _load(text, into=None):
    cs = into if into is not None else _new()
    reader = cs.loadFromString(text)
    return cs, reader


_CULPRIT = {}
_MEMO = [True]  # the memo is valid only for the app's own setting definitions (switched off while a test plug-in is registered)


def _culprits(tree):
    """Diagnosis of a failed read: which entries of the document fail when loaded alone?
    (memoised per entry: most entries of a full-style document are the same defaults every time)"""
    from ruamel.yaml import YAML

    bad = []
    for k, v in tree["settings"].items():
        ck = (k, R.jkey(v))
        if _MEMO[0] and ck in _CULPRIT:
            fails = _CULPRIT[ck]
        else:
            s = io.StringIO()
            YAML().dump({"settings": {k: v}}, s)
            try:
                _load(s.getvalue())
                fails = False
            except Exception:
                fails = True
            if _MEMO[0]:
                _CULPRIT[ck] = fails
        if fails:
            bad.append(k)
    return bad


def _without(tree, names):
    from ruamel.yaml import YAML

    s = io.StringIO()
    YAML().dump({"settings": {k: v for k, v in tree["settings"].items() if k not in names}}, s)
    return s.getvalue()


def _assign(cs, name, v):
    """-> (outcome, exception text). outcome: 'ok' | 'refused'."""
    try:
        cs[name] = v
        return "ok", ""
    except Exception as e:  # voluptuous.Invalid, TypeError, ValueError, OverflowError ... any error is a refusal
        return "refused", "%s: %s" % (type(e).__name__, str(e)[:120])


def _ref(s, v):
    """-> ('ok', canonical | PartialXS) | ('refused', None) | ('unmodelled', None)"""
    try:
        out = R.ref_setting(s, v)
    except R.Refuse:
        return "refused", None
    except R.Unmodelled:
        return "unmodelled", None
    return "ok", out


def _stored_matches(stored, want):
    """Compare the stored value with the reference's coerced value."""
    if isinstance(want, R.PartialXS):
        if not isinstance(stored, dict) or set(stored.keys()) != set(want.d.keys()):
            return False, "ids %s, expected %s" % (sorted(getattr(stored, "keys", lambda: [])()), sorted(want.d))
        for xsid, fields in want.d.items():
            o = stored[xsid]
            if getattr(o, "xsID", None) != xsid:
                return False, "entry %s carries xsID %r" % (xsid, getattr(o, "xsID", None))
            for f, x in fields.items():
                if R.canon(getattr(o, f, "<missing>")) != R.canon(x):
                    return False, "%s.%s is %r, supplied %r" % (xsid, f, getattr(o, f, "<missing>"), x)
        return True, ""
    a, b = R.canon(stored), R.canon(want)
    return a == b, "stored %s, schema gives %s" % (_short(stored), _short(want))


def _leafdiff(a, b):
    """First differing leaf pair of two canonical values (depth-first)."""
    if a == b:
        return None
    if a[0] == b[0] and a[0] == "l" and len(a[1]) == len(b[1]):
        for x, y in zip(a[1], b[1]):
            d = _leafdiff(x, y)
            if d:
                return d
    if a[0] == b[0] and a[0] == "d" and len(a[1]) == len(b[1]):
        for (k1, x), (k2, y) in zip(a[1], b[1]):
            d = _leafdiff(k1, k2) or _leafdiff(x, y)
            if d:
                return d
    if a[0] == b[0] and a[0] == "o" and a[1] == b[1]:
        return _leafdiff(a[2], b[2])
    return a, b


def _diffclass(name, a, b):
    """Class of a round-trip difference: text that changes is classed by the first character that
    does not survive (the same for every setting that can hold text); anything else by the setting."""
    d = _leafdiff(a, b)
    if d and d[0][0] == "s" and d[1][0] == "s":
        x, y = d[0][1], d[1][1]
        i = 0
        while i < len(x) and i < len(y) and x[i] == y[i]:
            i += 1
        # one character replaced or lost, the rest intact
        if i < len(x) and (x[i + 1 :] == y[i + 1 :] or x[i + 1 :] == y[i:]):
            return "text:U+%04X" % ord(x[i])
    return name


class _V:
    """violation collector bound to one case"""

    def __init__(self, case):
        self.case, self.vs, self.stats = case, [], {}

    def bad(self, key, msg):
        self.vs.append(core.viol("c17/" + key, msg, self.case))

    def n(self, name, k=1):
        self.stats[name] = self.stats.get(name, 0) + k


# ---------------------------------------------------------------------------------------------
# case kind: dev


def _apply_assignments(V, cs, assign, where="assign", refs=None):
    """Assign each (name, value) through ``cs[name] = v`` and judge acceptance, stored value and
    retention. Returns the list of names whose assignment was accepted."""
    accepted = []
    for name, jv in assign:
        v = R.dec(jv)
        s = (refs or {}).get(name) or dict(cs.items())[name]
        before = _snap(cs)
        want, wval = _ref(s, v)
        got, err = _assign(cs, name, v)
        after = _snap(cs)
        V.n("assign_" + got)
        V.n("ref_" + want)
        if want == "unmodelled":
            V.n("unmodelled:" + name)
        if got == "refused":
            d = _diff(before, after)
            if d:
                V.bad("refused-assignment-changed-value:" + name, "%s = %s was refused (%s) but %s changed: %s -> %s" % (name, _short(v), err, d, _short(before[d[0]]), _short(after[d[0]])))
            if want == "ok":
                V.bad("valid-value-refused:" + name, "%s = %s is admitted by the setting's schema/type/options but was refused: %s" % (name, _short(v), err))
        else:
            accepted.append(name)
            d = _diff(before, after, skip=(name,))
            if d:
                V.bad("assignment-changed-other-setting:" + name, "%s = %s changed other settings %s" % (name, _short(v), d))
            if want == "refused":
                V.bad("invalid-value-accepted:" + name, "%s = %s violates the setting's schema/type/options but was accepted (stored %s)" % (name, _short(v), _short(dict(cs.items())[name].value)))
            elif want == "ok":
                ok, why = _stored_matches(dict(cs.items())[name].value, wval)
                if not ok:
                    V.bad("stored-value-differs-from-schema:" + name, "%s = %s: %s" % (name, _short(v), why))
    return accepted


def _keyset_class(style, miss, extra, changed):
    """Class of a wrong key set: a changed setting that was omitted is named (it may be peculiar to that
    setting); omitted default-valued entries are one class per style (which entry it is depends only
    on which one the case asked to be listed); an entry that should not be there is named."""
    mc = [n for n in miss if n in changed]
    if mc:
        return "%s-style-omits-changed:%s" % (style, mc[0])
    if miss:
        return "%s-style-omits-listed-default" % style + (":" + miss[0] if style == "full" and len(miss) <= 2 else "")
    return "%s-style-writes-unchanged:%s" % (style, extra[0])


def _roundtrip(V, cs, style, by_user, src, dflt):
    """write ``cs`` in ``style``, check the key set, read into a fresh Settings, compare everything."""
    changed = set(n for n in src if src[n] != dflt[n])
    try:
        text = _write(cs, style, by_user)
    except Exception as e:
        names = "+".join(sorted(changed)) or "defaults"
        V.bad("write-raises:" + names, "writing style %s with %s raised %s: %s" % (style, _short({n: src[n] for n in changed}), type(e).__name__, str(e)[:160]))
        return
    V.n("roundtrips")
    V.n("roundtrips_" + style)
    after_write = _snap(cs)
    d = _diff(src, after_write)
    if d:
        V.bad("write-alters-source:" + d[0], "writing style %s changed the written settings object: %s %s -> %s" % (style, d, _short(src[d[0]]), _short(after_write[d[0]])))
    try:
        tree, keys = _doc_keys(text)
    except Exception as e:
        V.bad("written-file-not-yaml:" + ("+".join(sorted(changed)) or "defaults"), "style %s: the written text does not parse: %s: %s" % (style, type(e).__name__, str(e)[:160]))
        return
    if len(keys) != len(set(keys)):
        V.bad("duplicate-keys-written", "style %s wrote duplicate keys" % style)
    if style == "short":
        want = changed | {"versions"}
    elif style == "medium":
        want = changed | (set(by_user) & set(src)) | {"versions"}
    else:
        want = set(src)
    if set(keys) != want:
        miss, extra = sorted(want - set(keys)), sorted(set(keys) - want)
        V.bad(_keyset_class(style, miss, extra, changed), "style %s: missing %s, unexpected %s (changed settings: %s)" % (style, _short(miss), extra, sorted(changed)))
    skip = set()
    try:
        back, reader = _load(text)
    except Exception as e:
        V.n("read_raised")
        cul = _culprits(tree)
        err = "%s: %s" % (type(e).__name__, str(e)[:160])
        if not cul:
            V.bad("read-raises-combination:" + "+".join(sorted(changed)), "style %s: the written file cannot be read back (%s) although every entry loads alone; changed %s" % (style, err, _short({n: src[n] for n in changed})))
            return
        for k in cul:
            if k in changed:
                V.bad("accepted-value-unreadable:" + k, "%s was assigned %s without error, but the %s-style file then cannot be read back: %s" % (k, _short(src[k]), style, err))
            else:
                V.bad("default-unreadable:" + k, "the %s-style file lists %s at its default %s and cannot be read back: %s" % (style, k, _short(dflt.get(k)), err))
        # diagnostic continuation: the violation stands; the rest of the document is still explored
        skip = set(cul)
        V.n("continuations")
        try:
            back, reader = _load(_without(tree, skip))
        except Exception as e2:
            V.bad("read-raises-combination:" + "+".join(sorted(changed - skip)), "style %s: still unreadable without %s: %s" % (style, sorted(skip), str(e2)[:160]))
            return
    inv = sorted(getattr(reader, "invalidSettings", ()))
    if inv:
        V.bad("written-key-not-recognised:" + inv[0], "style %s: the reader does not recognise written keys %s" % (style, inv))
    got = _snap(back)
    d = _diff(src, got, skip=skip)
    for n in d:
        if R.loose(src[n]) == R.loose(got[n]):
            V.bad("roundtrip-type-changes:" + n, "style %s: %s written as %s reads back as %s" % (style, n, _short(src[n]), _short(got[n])))
        elif n in changed:
            V.bad("roundtrip-differs:" + _diffclass(n, src[n], got[n]), "style %s: %s written as %s reads back as %s" % (style, n, _short(src[n]), _short(got[n])))
        else:
            V.bad("default-not-preserved:" + n, "style %s: %s was left at its default %s but reads back as %s (changed: %s)" % (style, n, _short(src[n]), _short(got[n]), sorted(changed)))


def _eval_dev(case):
    V = _V(case)
    cs = _new()
    dflt = _defaults(cs)
    first = _snap(cs)
    d = _diff(dflt, first)
    if d:
        V.bad("fresh-settings-not-at-default:" + d[0], "a fresh Settings() holds %s away from the default" % d)
    _apply_assignments(V, cs, case["assign"])
    src = _snap(cs)
    names = sorted(src, key=str.lower)
    by_user = []
    if case["assign"]:
        # medium style: additionally list the setting that follows the first changed one (it is at its
        # default unless also changed) and a name that is not a setting
        i = names.index(case["assign"][0][0]) if case["assign"][0][0] in names else 0
        by_user = [names[(i + 1) % len(names)], "notASettingName"]
    for style in case.get("styles", STYLES):
        _roundtrip(V, cs, style, by_user if style == "medium" else (), src, dflt)
    if any(src[n] != dflt[n] for n in src):
        V.n("nontrivial")
    return V


# ---------------------------------------------------------------------------------------------
# case kind: doc (value arrives from a hand-written document)


def _eval_doc(case):
    V = _V(case)
    name, v = case["name"], R.dec(case["val"])
    cs = _new()
    s = dict(cs.items())[name]
    if "pre" in case:
        got, err = _assign(cs, name, R.dec(case["pre"]))
        if got != "ok":
            V.n("pre_refused")
            return V
    before = _snap(cs)
    want, wval = _ref(s, v)
    text = R.flow_doc({name: v})
    V.n("docs")
    try:
        _, reader = _load(text, into=cs)
        got, err = "ok", ""
    except Exception as e:
        got, err = "refused", "%s: %s" % (type(e).__name__, str(e)[:120])
    V.n("doc_" + got)
    after = _snap(cs)
    if got == "ok" and name in getattr(reader, "invalidSettings", ()):
        V.bad("defined-name-reported-invalid:" + name, "document %r: %s reported as invalid setting" % (text, name))
    # what does assignment say about the same value?
    cs2 = _new()
    agot, aerr = _assign(cs2, name, v)
    if got == "refused":
        d = _diff(before, after)
        if d and agot == "ok" and want != "refused":
            pass  # reported below as accepted-value-unreadable (the refusal does not come from the setting)
        elif d:
            V.bad("refused-read-changed-value:" + name, "reading %s failed (%s) but %s no longer holds the previous value: %s -> %s" % (_short(text), err, d, _short(before[d[0]]), _short(after[d[0]])))
        if want != "refused" and agot == "ok":
            V.bad("accepted-value-unreadable:" + name, "%s = %s is valid and accepted on assignment, but a document holding it is refused: %s (after the failed read %s holds %s)" % (name, _short(v), err, name, _short(after[name])))
        elif want == "ok":
            V.bad("valid-value-refused:" + name, "%s: %s admitted by the schema but refused on read: %s" % (name, _short(v), err))
    else:
        d = _diff(before, after, skip=(name,))
        if d:
            V.bad("read-changed-other-setting:" + name, "reading %s changed %s" % (_short(text), d))
        if want == "refused":
            V.bad("invalid-value-accepted:" + name, "document %s: value violates the schema/type/options of %s but was read without error (stored %s)" % (_short(text), name, _short(after[name])))
        elif want == "ok":
            ok, why = _stored_matches(dict(cs.items())[name].value, wval)
            if not ok:
                V.bad("stored-value-differs-from-schema:" + name, "document %s: %s" % (_short(text), why))
        if agot == "ok":
            a2 = _snap(cs2)
            if a2[name] != after[name]:
                V.bad("read-differs-from-assignment:" + name, "%s: value %s read from a document is stored as %s, assigned as %s" % (name, _short(v), _short(after[name]), _short(a2[name])))
    if (got == "ok") != (agot == "ok") and want == "unmodelled":
        V.bad("read-and-assignment-disagree:" + name, "%s = %s: assignment %s (%s), read %s (%s)" % (name, _short(v), agot, aerr, got, err))
    if after != _defaults(cs):
        V.n("nontrivial")
    return V


# ---------------------------------------------------------------------------------------------
# case kind: rename


def _eval_rename(case):
    V = _V(case)
    old, new, v = case["old"], case["new"], R.dec(case["val"])
    cs = _new()
    s = dict(cs.items())[new]
    if old not in [o for o, _ in s.oldNames]:
        raise RuntimeError("case out of date: %s is not an old name of %s" % (old, new))
    want, wval = _ref(s, v)
    if "pre" in case:
        _assign(cs, new, R.dec(case["pre"]))
        if want == "ok" and _stored_matches(dict(cs.items())[new].value, wval)[0]:
            V.n("pre_same")
            return V  # the previous value already equals the one in the document: nothing to observe
    before = _snap(cs)
    entries = {old: v}
    if case.get("with"):
        entries = dict([(case["with"][0], R.dec(case["with"][1])), (old, v)])
    text = R.flow_doc(entries)
    V.n("docs")
    try:
        _, reader = _load(text, into=cs)
        got, err = "ok", ""
    except Exception as e:
        got, err = "refused", "%s: %s" % (type(e).__name__, str(e)[:120])
    after = _snap(cs)
    if want == "ok":
        V.n("nontrivial")
        if got != "ok":
            V.bad("old-name-refused", "document %s raised %s" % (_short(text), err))
        else:
            ok, why = _stored_matches(dict(cs.items())[new].value, wval)
            if not ok:
                V.bad("old-name-ignored", "document %s (%s is an old name of %s): %s keeps %s (%s); reader reports invalid settings %s" % (_short(text), old, new, new, _short(after[new]), why, sorted(reader.invalidSettings)))
            elif old in reader.invalidSettings:
                V.bad("old-name-reported-invalid", "document %s sets %s but also reports %s invalid" % (_short(text), new, old))
            skip = {new} | ({case["with"][0]} if case.get("with") else set())
            d = _diff(before, after, skip=skip)
            if d:
                V.bad("old-name-changed-other-setting", "document %s changed %s" % (_short(text), d))
    elif want == "refused":
        if got == "ok" and after[new] != before[new]:
            V.bad("invalid-value-accepted:" + new, "document %s (old name): invalid value stored as %s" % (_short(text), _short(after[new])))
        elif got == "ok":
            # silently dropped: the value was neither stored nor rejected with an error
            V.bad("old-name-ignored", "document %s: invalid value under the old name is neither rejected nor stored (reported invalid: %s)" % (_short(text), sorted(reader.invalidSettings)))
        elif after[new] != before[new]:
            V.bad("refused-read-changed-value:" + new, "document %s refused (%s) but %s changed" % (_short(text), err, new))
    return V


# ---------------------------------------------------------------------------------------------
# case kind: copy


def _mutate_in_place(val):
    """Change a container value through the object itself. Returns False if nothing to change."""
    if isinstance(val, list):
        val.append("zz")
        return True
    if isinstance(val, dict):
        for o in val.values():
            if hasattr(o, "__dict__") and hasattr(o, "geometry"):
                o.geometry = "mutated"
                o.validBlockTypes = ["mutated"]
            elif isinstance(o, dict):
                o["zz"] = "zz"
            elif isinstance(o, list):
                o.append("zz")
        val["zz"] = "zz"
        return True
    return False


def _eval_copy(case):
    import copy
    import pickle

    V = _V(case)
    name, how = case["name"], case["how"]
    v1 = R.dec(case["v1"])
    orig = _new()
    if "v0" in case:
        got, _ = _assign(orig, name, R.dec(case["v0"]))
        if got != "ok":
            V.n("pre_refused")
            return V
    path0 = orig.path
    before = _snap(orig)
    s = dict(orig.items())[name]
    want, wval = _ref(s, v1)
    got, err = "ok", ""
    cp = None
    inplace = how.endswith("-inplace")
    try:
        if how == "modified":
            cp = orig.modified(newSettings={name: v1})
        elif how == "modified-title":
            cp = orig.modified(caseTitle="copyTitle", newSettings={name: v1})
        elif how == "modified-setting":
            so = orig.getSetting(name)
            so.setValue(v1)
            cp = orig.modified(newSettings={name: so})
        elif how in ("duplicate", "duplicate-inplace"):
            cp = orig.duplicate()
        elif how in ("modified-inplace",):
            cp = orig.modified()
        elif how == "deepcopy":
            cp = copy.deepcopy(orig)
        elif how == "pickle":
            cp = pickle.loads(pickle.dumps(orig))
        else:
            raise RuntimeError("unknown copy route " + how)
    except Exception as e:
        got, err = "refused", "%s: %s" % (type(e).__name__, str(e)[:120])
    V.n("copies")
    V.n("copy_" + how)
    if cp is not None and how in ("duplicate", "deepcopy", "pickle", "duplicate-inplace", "modified-inplace"):
        same = _snap(cp)
        d = _diff(before, same)
        if d:
            V.bad("copy-differs-from-original:" + how + ":" + d[0], "%s copy differs from the original in %s: %s vs %s" % (how, d, _short(before[d[0]]), _short(same[d[0]])))
        if inplace:
            if not _mutate_in_place(dict(cp.items())[name].value):
                V.n("inplace_not_applicable")
                return V
        else:
            got, err = _assign(cp, name, v1)
    after = _snap(orig)
    d = _diff(before, after)
    if d:
        V.bad("copy-affects-original:" + how + ":" + d[0], "after changing %s on a %s copy (%s) the original's %s changed: %s -> %s" % (name, how, _short(v1), d, _short(before[d[0]]), _short(after[d[0]])))
    if orig.path != path0:
        V.bad("copy-affects-original:" + how + ":path", "the original's path changed from %r to %r" % (path0, orig.path))
    if inplace:
        V.n("nontrivial")
        return V
    if got == "refused":
        if want == "ok":
            V.bad("valid-value-refused:" + name, "%s route: %s = %s refused: %s" % (how, name, _short(v1), err))
        return V
    if want == "refused":
        V.bad("invalid-value-accepted:" + name, "%s route: %s = %s accepted" % (how, name, _short(v1)))
        return V
    V.n("nontrivial")
    cpv = _snap(cp)
    if want == "ok":
        ok, why = _stored_matches(dict(cp.items())[name].value, wval)
        if not ok:
            V.bad("copy-lacks-modification:" + how + ":" + name, "%s copy: %s" % (how, why))
    d = _diff(before, cpv, skip=(name,))
    if d:
        V.bad("copy-differs-from-original:" + how + ":" + d[0], "%s copy with %s changed also differs in %s" % (how, name, d))
    # the copy is a settings object like any other: it must round-trip
    # (differentially: a failure that the same values give on a settings object that is not a copy
    # belongs to the dev cases, not here)
    dflt = _defaults(cp)
    W = _V(case)
    _roundtrip(W, cp, "short", (), cpv, dflt)
    for k, n in W.stats.items():
        V.n(k, n)
    control = set()
    if W.vs:
        plain = _new()
        if "v0" in case:
            _assign(plain, name, R.dec(case["v0"]))
        _assign(plain, name, v1)
        W0 = _V(case)
        _roundtrip(W0, plain, "short", (), _snap(plain), dflt)
        control = set(v["key"] for v in W0.vs)
    for v in W.vs:
        if v["key"] in control:
            V.n("copy_failure_same_as_plain")
            continue
        V.bad("copy-roundtrip:%s:%s" % (how, v["key"][len("c17/"):]), "%s copy with %s = %s: %s" % (how, name, _short(v1), v["msg"]))
    return V


# ---------------------------------------------------------------------------------------------
# case kind: file (path-based API)


def _eval_file(case):
    from armi import settings

    V = _V(case)
    name, v = case["name"], R.dec(case["val"])
    d = env.fresh_dir("c17")
    cs = _new()
    got, _ = _assign(cs, name, v)
    if got != "ok":
        V.n("pre_refused")
        return V
    src = _snap(cs)
    dflt = _defaults(cs)
    changed = set(n for n in src if src[n] != dflt[n])
    p1 = os.path.join(d, "case1.yaml")
    try:
        cs.writeToYamlFile(p1, style="short")
        V.n("roundtrips")
        back = settings.Settings(p1)
    except Exception as e:
        V.bad("accepted-value-unreadable:" + name, "file route: %s = %s written to a file that cannot be loaded: %s: %s" % (name, _short(v), type(e).__name__, str(e)[:160]))
        return V
    got1 = _snap(back)
    for n in _diff(src, got1):
        V.bad(("roundtrip-differs:" if n in changed else "default-not-preserved:") + n, "file route (short): %s written as %s reads back as %s" % (n, _short(src[n]), _short(got1[n])))
    if os.path.abspath(back.path) != os.path.abspath(p1):
        V.bad("file-path-not-set", "Settings(%r).path is %r" % (p1, back.path))
    # second generation: change another setting of the loaded object, re-write medium over the same file:
    # keys = what the user's file had + what changed since
    names = sorted(src, key=str.lower)
    other = names[(names.index(name) + 7) % len(names)]
    so = dict(back.items())[other]
    alt = None
    for cand in R.alphabet(so):
        w, wv = _ref(so, cand)
        if w == "ok" and not isinstance(wv, R.PartialXS) and R.canon_setting(other, wv) != dflt[other] and other not in ("verbosity", "branchVerbosity", "moduleVerbosity", "userPlugins"):
            alt = cand
            break
    if alt is not None:
        _assign(back, other, alt)
    # and put the first one back to its default: medium style must keep listing it
    back_default = False
    try:
        dict(back.items())[name].revertToDefault()
        back_default = True
    except Exception:
        pass
    src2 = _snap(back)
    try:
        back.writeToYamlFile(p1, style="medium")
        V.n("roundtrips")
        with open(p1) as f:
            text = f.read()
        tree, keys = _doc_keys(text)
        want = set(n for n in src2 if src2[n] != dflt[n]) | (changed & set(src2)) | {"versions"}
        if set(keys) != want:
            V.bad(_keyset_class("medium", sorted(want - set(keys)), sorted(set(keys) - want), set(n for n in src2 if src2[n] != dflt[n])), "file route: medium re-write over a file listing %s: keys %s, expected %s" % (sorted(changed), sorted(keys), sorted(want)))
        third = settings.Settings(p1)
        got3 = _snap(third)
        for n in _diff(src2, got3):
            V.bad(("roundtrip-differs:" if src2[n] != dflt[n] else "default-not-preserved:") + n, "file route (medium): %s written as %s reads back as %s" % (n, _short(src2[n]), _short(got3[n])))
    except Exception as e:
        cul = name if back_default else other
        V.bad("default-unreadable:" + cul if back_default else "accepted-value-unreadable:" + cul, "file route: medium re-write/read failed: %s: %s" % (type(e).__name__, str(e)[:160]))
    V.n("nontrivial")
    return V


# ---------------------------------------------------------------------------------------------
# case kind: renamer / collision (rename rules on synthetic settings)
#
# Reference rule, applied to each old name on its own (its neighbours in the list do not matter):
# an old name renames to the setting's current name iff it has no expiry date or the date lies in the
# future; an expired one (date today or earlier) is left alone and then is an unknown name; a name that
# is a current setting name is never renamed; the same old name *active* in two settings is refused.

RENAME_KINDS = ("none", "past", "today", "future")


def _expiry(kind, age):
    import datetime

    today = datetime.date.today()
    return {"none": None, "past": today - datetime.timedelta(days=age), "today": today, "future": today + datetime.timedelta(days=age)}[kind]


def _active(kind):
    return kind in ("none", "future")


def _eval_renamer(case):
    from armi.settings import setting, settingsIO

    V = _V(case)
    rules, age = case["rules"], case["age"]
    olds = ["synOld%d" % i for i in range(len(rules))]
    sig = ",".join(rules)

    def mk():
        return setting.Setting("synNew", default=1, description="synthetic renamed setting", oldNames=[(o, _expiry(k, age)) for o, k in zip(olds, rules)])

    defs = {
        "synNew": mk(),
        # synNew is also somebody's old name: a current name is never renamed
        "synOther": setting.Setting("synOther", default=1, description="d", oldNames=[("synNew", None), ("synOtherOld", None)]),
    }
    try:
        r = settingsIO.SettingRenamer(defs)
    except Exception as e:
        V.bad("renamer-refuses-rules", "SettingRenamer with oldNames kinds [%s] raised %s: %s" % (sig, type(e).__name__, str(e)[:120]))
        return V
    want = {"synNew": ("synNew", False), "synOther": ("synOther", False), "synOtherOld": ("synOther", True), "unknownName": ("unknownName", False)}
    for o, k in zip(olds, rules):
        want[o] = ("synNew", True) if _active(k) else (o, False)
    for name, w in want.items():
        V.n("docs")
        got = tuple(r.renameSetting(name))
        if got != w:
            if name in olds:
                k = rules[olds.index(name)]
                key = "renamer-rule:active-old-name-not-renamed" if _active(k) else "renamer-rule:expired-old-name-renamed"
                V.bad(key, "oldNames kinds [%s] (age %d d): renameSetting(%r) [%s] = %s, expected %s" % (sig, age, name, k, got, w))
            else:
                V.bad("renamer-rule:" + name, "oldNames kinds [%s]: renameSetting(%r) = %s, expected %s" % (sig, name, got, w))
    # the same rules through the reader: a Settings object carrying the synthetic setting
    cs = _new().modified(newSettings={"synNew": mk()})
    base = _snap(cs)
    docs = [[(n, 5)] for n in olds + ["synNew"]]
    for a, b in itertools.permutations(olds + ["synNew"], 2):
        docs.append([(a, 5), (b, 7)])
    kind_of = dict(zip(olds, rules))
    for entries in docs:
        cs["synNew"] = 1
        text = "settings:\n" + "".join("  %s: %d\n" % (n, x) for n, x in entries)
        V.n("docs")
        exp, exp_invalid = 1, set()
        for n, x in entries:  # entries are applied in document order, each by its own rule
            if n == "synNew" or _active(kind_of[n]):
                exp = x
            else:
                exp_invalid.add(n)
        try:
            _, reader = _load(text, into=cs)
        except Exception as e:
            V.bad("reader-rename:raises", "oldNames kinds [%s]: document %r raised %s: %s" % (sig, text, type(e).__name__, str(e)[:120]))
            continue
        got = dict(cs.items())["synNew"].value
        if got != exp:
            if exp == 1:
                key = "reader-rename:expired-old-name-applied"
            elif got == 1:
                key = "reader-rename:active-old-name-ignored"
            else:
                key = "reader-rename:wrong-value"
            V.bad(key, "oldNames kinds [%s] (age %d d): document %r leaves synNew = %r, expected %r (invalid reported: %s)" % (sig, age, text, got, exp, sorted(reader.invalidSettings)))
        elif set(reader.invalidSettings) != exp_invalid:
            V.bad("reader-rename:invalid-names-reported", "oldNames kinds [%s]: document %r reports invalid %s, expected %s" % (sig, text, sorted(reader.invalidSettings), sorted(exp_invalid)))
        d = _diff(base, _snap(cs), skip=("synNew",))
        if d:
            V.bad("reader-rename:changed-other-setting", "document %r changed %s" % (text, d))
    V.n("nontrivial")
    return V


def _eval_collision(case):
    """Two settings listing the same old name: refused iff the name is active in both."""
    from armi.settings import setting, settingsIO

    V = _V(case)
    ka, kb, age = case["a"], case["b"], case["age"]

    def mk(name, kind, extra):
        olds = [("shared", _expiry(kind, age))]
        olds = extra + olds if case.get("shared_last") else olds + extra
        return setting.Setting(name, default=1, description="d", oldNames=olds)

    defs = {"synA": mk("synA", ka, [("onlyA", None)]), "synB": mk("synB", kb, [("onlyB", None)])}
    want_refused = _active(ka) and _active(kb)
    V.n("docs")
    try:
        r = settingsIO.SettingRenamer(defs)
        refused = False
    except Exception as e:
        refused, err = True, "%s: %s" % (type(e).__name__, str(e)[:100])
    if want_refused and not refused:
        V.bad("renamer-rule:collision-not-refused", "old name 'shared' active [%s] in synA and active [%s] in synB: not refused" % (ka, kb))
    elif refused and not want_refused:
        V.bad("renamer-rule:collision-refused-wrongly", "old name 'shared' is %s in synA and %s in synB (not active in both) but SettingRenamer raised %s" % (ka, kb, err))
    elif not refused:
        w = ("synA", True) if _active(ka) else (("synB", True) if _active(kb) else ("shared", False))
        got = tuple(r.renameSetting("shared"))
        if got != w:
            V.bad("renamer-rule:active-old-name-not-renamed" if w[1] else "renamer-rule:expired-old-name-renamed", "'shared' is %s in synA, %s in synB: renameSetting('shared') = %s, expected %s" % (ka, kb, got, w))
        for o, n in (("onlyA", "synA"), ("onlyB", "synB")):
            got = tuple(r.renameSetting(o))
            if got != (n, True):
                V.bad("renamer-rule:active-old-name-not-renamed", "'shared' is %s in synA, %s in synB: renameSetting(%r) = %s, expected %s" % (ka, kb, o, got, (n, True)))
    # the reader is built from the same table
    cs = _new().modified(newSettings=dict(defs))
    try:
        _load("settings:\n  onlyA: 5\n  onlyB: 7\n", into=cs)
        rd = False
    except Exception:
        rd = True
    if rd != want_refused:
        V.bad("reader-rename:collision", "'shared' is %s in synA, %s in synB: reading a document %s" % (ka, kb, "raised" if rd else "did not raise"))
    elif not rd and (dict(cs.items())["synA"].value, dict(cs.items())["synB"].value) != (5, 7):
        V.bad("reader-rename:active-old-name-ignored", "'shared' is %s in synA, %s in synB: onlyA/onlyB not applied" % (ka, kb))
    V.n("nontrivial")
    return V


# ---------------------------------------------------------------------------------------------
# case kind: chars (every code point of a range, in four contexts, through one text-typed setting)

CHAR_CONTEXTS = ("%s", "a%sb", "%s x", " %s")
CODEPOINTS = list(range(1, 0x180)) + [0x2028, 0x2029, 0xFEFF, 0xFFFE, 0xFFFF, 0xD7FF, 0xE000, 0x1F600, 0x10FFFF]


def _eval_chars(case):
    V = _V(case)
    name = case["name"]
    dflt = None
    for cp in case["cps"]:
        for ctxt in CHAR_CONTEXTS:
            v = ctxt % chr(cp)
            cs = _new()
            if dflt is None:
                dflt = _defaults(cs)
            val = [v, "x"] if case.get("in_list") else v
            got, err = _assign(cs, name, val)
            if got != "ok":
                V.bad("valid-value-refused:" + name, "%s = %r refused: %s" % (name, val, err))
                continue
            _roundtrip(V, cs, "short", (), _snap(cs), dflt)
    V.n("nontrivial")
    return V


# ---------------------------------------------------------------------------------------------
# case kind: plugin (options and defaults contributed by a plug-in, on real and synthetic settings)

SYN_PLUGIN_SETTINGS = {
    "synEnfEmpty": dict(default="", options=[], enforced=True),
    "synEnf": dict(default="a", options=["a", "b"], enforced=True),
    "synFree": dict(default="a", options=["a", "b"], enforced=False),
    "synEnfInt": dict(default=1, options=[1, 2], enforced=True),
}


def _eval_plugin(case):
    """A test plug-in contributes Option / Default entries for ``target`` (a setting of the app, or a
    synthetic one defined by a second test plug-in, registered before or after). Reference: the
    setting then behaves as if it had been declared with the extended option list / the new default."""
    import types

    from armi import getPluginManagerOrFail, plugins
    from armi.settings import setting

    V = _V(case)
    target = case["target"]
    adds = [R.dec(x) for x in case["add"]]
    syn = SYN_PLUGIN_SETTINGS.get(target)
    contrib = [setting.Option(o, target) for o in adds]
    has_default = "default" in case
    if has_default:
        contrib.append(setting.Default(R.dec(case["default"]), target))

    class C17OptionsPlugin(plugins.ArmiPlugin):
        @staticmethod
        @plugins.HOOKIMPL
        def defineSettings():
            return list(contrib)

    class C17DefiningPlugin(plugins.ArmiPlugin):
        @staticmethod
        @plugins.HOOKIMPL
        def defineSettings():
            return [setting.Setting(target, default=syn["default"], description="synthetic plug-in setting", options=list(syn["options"]), enforcedOptions=syn["enforced"])]

    if syn:
        options0, default0, enforced, custom = list(syn["options"]), syn["default"], syn["enforced"], None
        # hooks run last-registered-first: "options-first" makes the Option arrive before the setting exists
        regs = [C17DefiningPlugin, C17OptionsPlugin] if case.get("order") == "options-first" else [C17OptionsPlugin, C17DefiningPlugin]
    else:
        b = discover()[target]
        options0, default0, enforced, custom = (list(b.options) if b.options is not None else None), b.default, b.enforcedOptions, getattr(b, "_customSchema", None)
        regs = [C17OptionsPlugin]
    ext = (options0 or []) + adds if (options0 is not None or adds) else None
    wd = R.dec(case["default"]) if has_default else default0
    # the value type stays the declared one; a plug-in default has to fit it
    refsetting = types.SimpleNamespace(name=target, _customSchema=custom, options=ext, enforcedOptions=enforced, default=default0, oldNames=[])
    tag = "%s+%s%s" % (target, adds, ("/default=%r" % (wd,)) if has_default else "")
    # control (real settings only): what the same default / assignment does without the plug-in; a
    # failure that is already there belongs to the dev cases (e.g. late-validated verbosity values)
    control = set()
    if not syn:
        C = _V(case)
        c0 = _new()
        pre = ([[target, case["default"]]] if has_default else []) + list(case.get("assign", []))
        for n_, jv in pre:
            _assign(c0, n_, R.dec(jv))
        _roundtrip(C, c0, "short", (), _snap(c0), _defaults(c0))
        control = set(v["key"][len("c17/"):] for v in C.vs)
    pm = getPluginManagerOrFail()
    done = []
    try:
        _MEMO[0] = False  # diagnoses made under the test plug-in's definitions must not be remembered
        for p in regs:
            pm.register(p)
            done.append(p)
        V.n("docs")
        dwant, dval = _ref(refsetting, wd) if has_default else ("ok", default0)
        styles = tuple(case.get("styles", ("short", "full")))
        if not has_default and _ref(refsetting, default0)[0] == "refused":
            # the test plug-in extended an enforced list that does not hold the declared default and gave no
            # new default: the resulting definition is ill-formed by the plug-in's doing; only the short
            # style (which does not list defaults) is judged
            V.n("plugin_default_outside_extended_options")
            styles = ("short",)
        try:
            cs = _new()
            built, err = True, ""
        except Exception as e:
            built, err = False, "%s: %s" % (type(e).__name__, str(e)[:120])
        if options0 is None and adds:
            # a setting declared without an option list cannot take options: either outcome is a refusal or an extension
            if not built:
                return V
        if not built:
            if not (has_default and dwant == "refused"):
                V.bad("plugin-contribution-refused:" + target, "plug-in contributes %s: Settings() raised %s" % (tag, err))
            return V
        if has_default and dwant == "refused":
            V.bad("plugin-default-invalid-accepted:" + target, "plug-in default %r for %s violates its (extended) schema/options %s but Settings() was built" % (wd, target, ext))
            return V
        s = dict(cs.items())[target]
        if ext is not None and list(s.options or []) != ext:
            V.bad("plugin-options-not-extended:" + target, "%s: options are %s, expected %s" % (tag, s.options, ext))
        if has_default:
            if R.loose(R.canon(s.default)) != R.loose(R.canon(wd)):
                V.bad("plugin-default-not-applied:" + target, "%s: default is %r" % (tag, s.default))
            if dwant == "ok" and not _stored_matches(s.value, dval)[0]:
                V.bad("plugin-default-not-applied:" + target, "%s: a fresh Settings() holds %r: %s" % (tag, s.value, _stored_matches(s.value, dval)[1]))
        # the valid/invalid oracle against the extended definition
        W = _V(case)
        _apply_assignments(W, cs, case.get("assign", []), refs={target: refsetting})
        for k, n in W.stats.items():
            V.n(k, n)
        for v in W.vs:
            V.bad("plugin:" + v["key"][len("c17/"):], "plug-in contributes %s: %s" % (tag, v["msg"]))
        src, dflt = _snap(cs), _defaults(cs)
        W = _V(case)
        for style in styles:
            _roundtrip(W, cs, style, (), src, dflt)
        for k, n in W.stats.items():
            V.n(k, n)
        for v in W.vs:
            if v["key"][len("c17/"):] in control or (control and v["key"].split(":")[0] in ("c17/default-unreadable", "c17/read-raises-combination")):
                V.n("plugin_failure_same_as_plain")
                continue
            V.bad("plugin:" + v["key"][len("c17/"):], "plug-in contributes %s: %s" % (tag, v["msg"]))
        V.n("nontrivial")
    finally:
        for p in reversed(done):
            try:
                pm.unregister(p)
            except Exception:
                pass
        _MEMO[0] = True
    return V


# ---------------------------------------------------------------------------------------------
# case kind: alias (a value handed over in every form the API accepts, then changed in place on one side)

ALIAS_FORMS = ("assign-live", "modified-live", "modified-live-setting", "modified-data", "getSetting", "duplicate", "deepcopy", "pickle")
MUTATORS = ("append", "setitem0", "clear", "dict-set", "dict-del", "nested", "xs-setDefaults", "xs-attr", "xs-list-attr")


def _first_nested(val, depth=0):
    """First container found strictly inside ``val`` (depth-first)."""
    items = val.values() if isinstance(val, dict) else (val if isinstance(val, list) else (vars(val).values() if hasattr(val, "__dict__") else ()))
    for x in items:
        if isinstance(x, (list, dict)) or (hasattr(x, "__dict__") and not isinstance(x, type)):
            return x
    for x in items:
        if isinstance(x, (list, dict)):
            y = _first_nested(x, depth + 1)
            if y is not None:
                return y
    return None


def _mutate(val, how):
    """Apply one in-place mutator to a live value object. False when it does not apply to this value."""
    if how == "append" and isinstance(val, list):
        val.append("zz")
        return True
    if how == "setitem0" and isinstance(val, list) and val:
        val[0] = "zz"
        return True
    if how == "clear" and isinstance(val, (list, dict)) and val:
        val.clear()
        return True
    if how == "dict-set" and isinstance(val, dict):
        val["zz"] = "zz"
        return True
    if how == "dict-del" and isinstance(val, dict) and val:
        del val[next(iter(val))]
        return True
    if how == "nested":
        x = _first_nested(val)
        if isinstance(x, list):
            x.append("zz")
            return True
        if isinstance(x, dict):
            x["zz"] = "zz"
            return True
        if x is not None and hasattr(x, "__dict__"):
            setattr(x, sorted(vars(x))[0], "zz")
            return True
        return False
    if how == "xs-setDefaults" and hasattr(val, "setDefaults") and isinstance(val, dict) and val:
        try:
            val.setDefaults("Median", ["fuel"])
        except Exception:
            pass  # a refusal half-way still is a change made on this side only
        return True
    if how in ("xs-attr", "xs-list-attr") and isinstance(val, dict):
        for o in val.values():
            if hasattr(o, "__dict__") and hasattr(o, "criticalBuckling"):
                if how == "xs-attr":
                    o.criticalBuckling = not o.criticalBuckling
                    o.driverID = "ZZ"
                    return True
                for a, x in sorted(vars(o).items()):
                    if isinstance(x, list):
                        x.append("zz")
                        return True
        return False
    return False


def _eval_alias(case):
    import copy
    import pickle

    V = _V(case)
    name, form, mut, side = case["name"], case["form"], case["mut"], case["side"]
    orig = _new()
    if "v0" in case:
        got, _ = _assign(orig, name, R.dec(case["v0"]))
        if got != "ok":
            V.n("pre_refused")
            return V
    live_setting = dict(orig.items())[name]
    live = live_setting.value
    V.n("copies")
    V.n("alias_" + form)
    other = None
    if form == "assign-live":
        cp = _new()
        cp[name] = live
    elif form == "modified-live":
        cp = orig.modified(newSettings={name: live})
    elif form == "modified-live-setting":
        cp = orig.modified(newSettings={name: live_setting})
    elif form == "modified-data":
        cp = orig.modified(newSettings={name: R.dec(case["v0"])}) if "v0" in case else orig.modified()
    elif form == "getSetting":
        cp = None
        other = orig.getSetting(name)
    elif form == "duplicate":
        cp = orig.duplicate()
    elif form == "deepcopy":
        cp = copy.deepcopy(orig)
    elif form == "pickle":
        cp = pickle.loads(pickle.dumps(orig))
    else:
        raise RuntimeError("unknown form " + form)
    if cp is not None:
        other = dict(cp.items())[name]
    b_orig = _snap(orig)
    b_other = R.canon_setting(name, other.value) if cp is None else _snap(cp)
    if cp is not None and b_other != b_orig:
        d = _diff(b_orig, b_other)
        V.bad("copy-differs-from-original:%s:%s" % (form, d[0]), "%s: the copy differs from the original in %s" % (form, d))
    target = other.value if side == "copy" else live_setting.value
    if not _mutate(target, mut):
        V.n("mutator_not_applicable")
        return V
    V.n("nontrivial")
    V.n("mut_" + mut)
    if side == "copy":
        a = _snap(orig)
        d = _diff(b_orig, a)
        if d:
            V.bad(_alias_class(form, mut, live), "%s: %s handed over as %s; after %s on the copy's value the original's %s changed: %s -> %s" % (name, _short(case.get("v0")), form, mut, d, _short(b_orig[d[0]]), _short(a[d[0]])))
    else:
        a = R.canon_setting(name, other.value) if cp is None else _snap(cp)
        if a != b_other:
            V.bad(_alias_class(form, mut, live), "%s: %s handed over as %s; after %s on the original's value the copy changed" % (name, _short(case.get("v0")), form, mut))
    return V


def _alias_class(form, mut, live):
    """One class per sharing mechanism: how the value was handed over (the three ways of passing a live
    object are one), whether the shared part is the value object itself or something inside it, and the
    kind of value."""
    fc = "live" if form in ("assign-live", "modified-live") else form
    depth = "nested" if mut in ("nested", "xs-attr", "xs-list-attr", "xs-setDefaults") else "top"
    return "shared-value:%s:%s:%s" % (fc, depth, _kindname(live))


def _kindname(val):
    return type(val).__name__ if type(val).__name__ in ("list", "dict") or hasattr(val, "setDefaults") else ("list" if isinstance(val, list) else ("dict" if isinstance(val, dict) else type(val).__name__))


_EVAL = {"plugin": _eval_plugin, "alias": _eval_alias, "chars": _eval_chars, "dev": _eval_dev, "doc": _eval_doc, "rename": _eval_rename, "copy": _eval_copy, "file": _eval_file, "renamer": _eval_renamer, "collision": _eval_collision}


def evaluate(case):
    return _EVAL[case["kind"]](case).vs


def _batch(cases):
    """worker entry: evaluate a batch -> (violations, stats, per-case nontrivial flags)"""
    vs, stats, nt = [], {}, []
    for c in cases:
        V = _EVAL[c["kind"]](c)
        per = {}
        for v in V.vs:  # one example per class and case
            per[v["key"]] = per.get(v["key"], 0) + 1
            if per[v["key"]] <= 1:
                vs.append(v)
        for k, n in V.stats.items():
            stats[k] = stats.get(k, 0) + n
        nt.append(1 if V.stats.get("nontrivial") else 0)
    return vs, stats, nt


# ---------------------------------------------------------------------------------------------
# enumeration


def discover():
    """name -> Setting of a fresh Settings() (the app's framework + plug-in settings)."""
    return dict(_new().items())


def _classified(s, vals):
    good, bad, unk = [], [], []
    dc = R.canon_setting(s.name, s.default)
    for v in vals:
        w, wv = _ref(s, v)
        if w == "ok":
            if isinstance(wv, R.PartialXS):
                nondefault = bool(wv.d)
            else:
                nondefault = R.canon_setting(s.name, wv) != dc
            (good if nondefault else unk).append(v)
        elif w == "refused":
            bad.append(v)
        else:
            unk.append(v)
    return good, bad, unk


# values that make loadFromString alter process-wide state in ways that do not concern the property
# are still explored; nothing is excluded here.


def groups(defs):
    from armi.settings import caseSettings

    names = sorted(defs, key=str.lower)
    cyc = [n for n in names if n in caseSettings.SIMPLE_CYCLES_INPUTS or n in ("cycles", "nCycles", "power", "powerDensity")]
    xs = [n for n in names if type(defs[n]).__name__ != "Setting" or re.search(r"xs|crossSection|tightCoupling", n, re.I)]
    lists = [n for n in names if isinstance(defs[n].default, (list, dict)) or defs[n].default is None]
    return {"cycles": cyc, "xs": xs, "lists": lists}


def build_cases(ctx):
    B = BOUNDS[ctx.tier]
    defs = discover()
    names = sorted(defs, key=str.lower)
    alph = {n: R.alphabet(defs[n]) for n in names}
    cls = {n: _classified(defs[n], alph[n]) for n in names}
    cases = []
    info = {"settings": len(names), "alphabet_total": sum(len(a) for a in alph.values()),
            "values_valid_nondefault": sum(len(c[0]) for c in cls.values()), "values_invalid": sum(len(c[1]) for c in cls.values()),
            "settings_without_nondefault_valid": [n for n in names if not cls[n][0]],
            "settings_without_invalid": [n for n in names if not cls[n][1]]}

    # 0 deviations
    cases.append({"kind": "dev", "assign": []})
    # 1 deviation: every setting x every value x styles, by assignment and from a document
    for n in names:
        fullvals = set(R.jkey(v) for v in (cls[n][0][: B["full_vals"]] if B["full_vals"] else alph[n]))
        for v in alph[n]:
            ev = R.enc(v)
            c = {"kind": "dev", "assign": [[n, ev]]}
            if R.jkey(v) not in fullvals:
                c["styles"] = ["short", "medium"]  # the full style differs only by the defaults it lists
            cases.append(c)
            if R.json_able(v):
                cases.append({"kind": "doc", "name": n, "val": ev})
                if B["doc_pre"] and cls[n][0]:
                    pre = cls[n][0][0] if R.jkey(cls[n][0][0]) != R.jkey(v) or len(cls[n][0]) < 2 else cls[n][0][1]
                    cases.append({"kind": "doc", "name": n, "val": ev, "pre": R.enc(pre)})
    # every code point of CODEPOINTS x 4 contexts through one plain text setting and one plain list setting
    texts = [n for n in names if isinstance(defs[n].default, str) and not defs[n].options and getattr(defs[n], "_customSchema", None) is None]
    plainlists = [n for n in names if defs[n].default == [] and getattr(defs[n], "_customSchema", None) is None]
    info["char_sweep_settings"] = texts[:1] + plainlists[:1]
    for n, in_list in [(x, False) for x in texts[:1]] + [(x, True) for x in plainlists[:1]]:
        for i in range(0, len(CODEPOINTS), 16):
            cases.append({"kind": "chars", "name": n, "cps": CODEPOINTS[i : i + 16], "in_list": in_list})
    # renames: every (old -> new) x values (valid and invalid), alone, with a previous value, next to another entry
    nren = 0
    for n in names:
        for old, _exp in defs[n].oldNames:
            nren += 1
            good, bad, _ = cls[n]
            vals = [v for v in good if R.json_able(v)][: 6 if ctx.quick else 40] + [v for v in bad if R.json_able(v)][: 2 if ctx.quick else 10]
            for v in vals:
                cases.append({"kind": "rename", "old": old, "new": n, "val": R.enc(v)})
            for v in vals[:2]:
                if len(good) > 1:
                    cases.append({"kind": "rename", "old": old, "new": n, "val": R.enc(v), "pre": R.enc(good[-1])})
                cases.append({"kind": "rename", "old": old, "new": n, "val": R.enc(v), "with": ["comment", "next to a renamed entry"]})
    info["rename_pairs"] = nren
    # rename rules on synthetic settings: every list of 1-3 old names over {no expiry, past, today, future}
    # in every order x two ages; two settings sharing an old name, every combination of kinds
    for age in (1, 400):
        for n in (1, 2, 3):
            for rules in itertools.product(RENAME_KINDS, repeat=n):
                cases.append({"kind": "renamer", "rules": list(rules), "age": age})
        for ka, kb in itertools.product(RENAME_KINDS, repeat=2):
            for last in (False, True):
                cases.append({"kind": "collision", "a": ka, "b": kb, "age": age, "shared_last": last})
    # copies
    routes = ["modified", "modified-title", "modified-setting", "duplicate", "deepcopy", "pickle"]
    for n in names:
        good, bad, _ = cls[n]
        for v1 in good[: B["copy_vals"]] + bad[:2]:
            for how in routes:
                cases.append({"kind": "copy", "name": n, "how": how, "v1": R.enc(v1)})
                if len(good) > 1 and how in ("modified", "duplicate"):
                    v0 = good[-1] if R.jkey(good[-1]) != R.jkey(v1) else good[0]
                    cases.append({"kind": "copy", "name": n, "how": how, "v0": R.enc(v0), "v1": R.enc(v1)})
        if isinstance(defs[n].default, (list, dict)):
            for v0 in good[: B["copy_vals"]]:
                for how in ("duplicate-inplace", "modified-inplace"):
                    cases.append({"kind": "copy", "name": n, "how": how, "v0": R.enc(v0), "v1": None})
            for how in ("duplicate-inplace", "modified-inplace"):
                cases.append({"kind": "copy", "name": n, "how": how, "v1": None})
    # the alias family: every mutable-valued setting x value forms x in-place mutators x side
    def _muts(v, compound):
        m = []
        if isinstance(v, list):
            m += ["append"] + (["setitem0", "clear"] if v else [])
            if any(isinstance(x, (list, dict)) for x in v):
                m.append("nested")
        elif isinstance(v, dict):
            m += ["dict-set"] + (["dict-del"] if v else [])
            if compound and v:
                m += ["xs-setDefaults", "xs-attr", "xs-list-attr", "nested"]
            elif any(isinstance(x, (list, dict)) for x in v.values()):
                m.append("nested")
        return m

    nalias = 0
    for n in names:
        d = defs[n].default
        if not (isinstance(d, (list, dict)) or d is None):
            continue
        compound = type(defs[n]).__name__ != "Setting"
        good = [v for v in cls[n][0] if isinstance(v, (list, dict))]
        nested = [v for v in good if (isinstance(v, list) and any(isinstance(x, (list, dict)) for x in v)) or (isinstance(v, dict) and any(isinstance(x, (list, dict)) and x for x in v.values()))]
        picks = []
        for v in good[:1] + nested[: 2 if ctx.quick else 6] + good[-1:]:
            if R.jkey(v) not in [R.jkey(x) for x in picks]:
                picks.append(v)
        for v0 in picks:
            for form in ALIAS_FORMS:
                for mut in _muts(v0, compound):
                    for side in ("copy", "orig"):
                        cases.append({"kind": "alias", "name": n, "v0": R.enc(v0), "form": form, "mut": mut, "side": side})
                        nalias += 1
    info["alias_cases"] = nalias

    # plug-in contributed options and defaults
    def plug(target, add, default=None, has_default=False, order=None, vals=(), styles=None):
        base = {"kind": "plugin", "target": target, "add": [R.enc(x) for x in add]}
        if has_default:
            base["default"] = R.enc(default)
        if order:
            base["order"] = order
        if styles:
            base["styles"] = styles
        cases.append(dict(base))
        for v in vals:
            c = dict(base)
            c["assign"] = [[target, R.enc(v)]]
            cases.append(c)

    nplug0 = len(cases)
    for n in names:
        sdef = defs[n]
        good, bad, _ = cls[n]
        # a plug-in changes the default: to a valid value (every setting), to an invalid one
        if good and n != "versions":  # (the writer's bookkeeping entry always overwrites versions)
            plug(n, [], good[0], True, styles=["short"] if ctx.quick else None)
        if bad:
            plug(n, [], bad[0], True)
        if sdef.options is None:
            continue
        opts = list(sdef.options)
        new = ["plugOptA", "plugOptB"] if not opts or isinstance(opts[0], str) else [max(opts) + 1, max(opts) + 2]
        probe = new + opts[:2] + ["notAnOption", new[0].lower() if isinstance(new[0], str) else -1, "", 5, None]
        if sdef.enforcedOptions:
            for add in (new[:1], new):
                plug(n, add, vals=probe)
                plug(n, add, add[0], True, vals=probe[:4])
                plug(n, add, "notAnOption", True)
        else:
            plug(n, new[:1], vals=probe[:3], styles=["short"])
    for n, syn in SYN_PLUGIN_SETTINGS.items():
        opts = syn["options"]
        new = [3, 4] if n == "synEnfInt" else ["plugOptA", "plugOptB"]
        probe = new + opts + ["notAnOption", "", 5, None, syn["default"]]
        for order in ("options-first", "setting-first"):
            plug(n, [], vals=probe, order=order)
            for add in (new[:1], new):
                plug(n, add, vals=probe, order=order)
                plug(n, add, add[-1], True, vals=probe, order=order)
                plug(n, add, "notAnOption" if n != "synEnfInt" else 99, True, order=order)
    info["plugin_cases"] = len(cases) - nplug0

    # file route
    for n in names:
        good = [v for v in cls[n][0]]
        if n == "userPlugins":
            continue  # loading a file with user plug-ins imports them (not part of the property)
        for v in good[: 1 if ctx.quick else 4]:
            cases.append({"kind": "file", "name": n, "val": R.enc(v)})

    # 2 deviations
    def reduced(n, k):
        good, bad, _ = cls[n]
        return [R.enc(v) for v in good[: k[0]] + bad[: k[1]]]

    G = groups(defs)
    info["groups"] = {g: len(m) for g, m in G.items()}
    seen = set()

    def pairs(members, k, full=False):
        for a, b in itertools.combinations(members, 2):
            for va in reduced(a, k):
                for vb in reduced(b, k):
                    c = {"kind": "dev", "assign": [[a, va], [b, vb]]}
                    if not full:
                        c["styles"] = ["short", "medium"]  # the full style differs only by the defaults it lists
                    h = core.jhash(c["assign"])
                    if h not in seen:
                        seen.add(h)
                        cases.append(c)

    pairs(G["cycles"], B["pair_group"], B["full_pairs"])
    pairs(G["xs"], B["pair_group"], B["full_pairs"])
    pairs(G["lists"], B["pair_lists"], B["full_pairs"])
    # a fixed covering of the remaining pairs: every setting with its 3 successors (quick), all pairs (thorough)
    if B["pair_all"]:
        pairs(names, B["pair_all"])
    else:
        for i, a in enumerate(names):
            for off in (1, 2, 3):
                pairs([a, names[(i + off) % len(names)]], (1, 1))
    if B["triples"]:
        for tri in itertools.combinations(G["cycles"], 3):
            for vals in itertools.product(*[reduced(n, B["triples"]) for n in tri]):
                cases.append({"kind": "dev", "assign": [[n, v] for n, v in zip(tri, vals)]})
    return cases, info


def run(ctx):
    cases, info = build_cases(ctx)
    order = ctx.order(cases)
    batches = [order[i : i + BATCH] for i in range(0, len(order), BATCH)]
    res = core.pmap(MOD, "_batch", batches, chunksize=1)
    nontrivial = 0
    kinds = {}
    for b, (vs, stats, nt) in zip(batches, res):
        ctx.add_violations(vs)
        for k, n in stats.items():
            ctx.count(k, n)
        nontrivial += sum(nt)
        for c in b:
            kinds[c["kind"]] = kinds.get(c["kind"], 0) + 1
    # simplest first for the report: fewest deviations, then case size
    ctx.violations.sort(key=lambda v: (len(v["case"].get("assign", [0])), len(repr(v["case"]))))
    for k, n in kinds.items():
        ctx.count("cases_" + k, n)
    unmod = sorted(k.split(":", 1)[1] for k in ctx.counters if k.startswith("unmodelled:"))
    for k in [k for k in ctx.counters if k.startswith("unmodelled:")]:
        del ctx.counters[k]
    ctx.samples = [cases[1], cases[len(cases) // 3], cases[len(cases) // 2], cases[-1]]
    ev = ctx.counters.get("roundtrips", 0) + ctx.counters.get("docs", 0) + ctx.counters.get("copies", 0)
    ctx.coverage.update(
        evaluations=ev,
        distinct_nontrivial=nontrivial,
        rule="an evaluation is one write->read round trip, one document read or one copy operation on the real Settings code; a case (distinct by its JSON) is non-trivial when it leaves at least one setting away from its default (or, for rename/copy cases, exercises a valid value)",
        exhaustive=True,
        cases=len(cases),
        settings_discovered=info["settings"],
        alphabet_values=info["alphabet_total"],
        values_valid_nondefault=info["values_valid_nondefault"],
        values_invalid=info["values_invalid"],
        rename_pairs=info["rename_pairs"],
        alias_cases=info["alias_cases"],
        plugin_cases=info["plugin_cases"],
        char_sweep=dict(settings=info["char_sweep_settings"], code_points=len(CODEPOINTS), contexts=list(CHAR_CONTEXTS)),
        groups=info["groups"],
        settings_with_unmodelled_schema=unmod,
        settings_without_nondefault_valid_value=info["settings_without_nondefault_valid"],
        settings_without_invalid_value=info["settings_without_invalid"],
        styles=list(STYLES),
    )
    ctx.assumptions += [
        "values come from finite schema-derived alphabets (c17_ref.alphabet); a defect needing a value outside them is missed",
        "at most %d simultaneous deviations from the all-defaults configuration%s" % (1 if ctx.quick else 2, " (2 inside the cycle / cross-section / container-typed groups and for each setting with its 3 successors)" if ctx.quick else " (3 inside the cycle-input group)"),
        "validity of a value is decided by the reference interpreter of the setting's own schema tree (definition = specification); a wrong schema definition is only seen when a default or an accepted value fails to read back",
        "documents with old names / invalid values are flow-style YAML produced with json.dumps; block-style documents come from armi's writer only",
        "expiry of renames is exercised on synthetic settings only (no setting of the app has an expiring old name)",
    ]


# keep `env` imported for evaluate() callers that run outside a pool
_ = env
