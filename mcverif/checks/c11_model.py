"""C11 - boring reference models (pure Python, no armi import).

Everything here is closed-form interval arithmetic on step functions:

* ``overlaps``      overlap length of [z0, z1] with every cell of a mesh
* ``map_*``         integrated / averaged / peak re-mapping of a per-cell profile onto another mesh
* ``resample``      step-function resampling (average or sum)
* ``filter_oracle`` the *postconditions* of minimum-size mesh filtering (not a re-implementation)
* ``avg1d``         exact-rational "average of the rows that are near the average"
"""
import itertools
from fractions import Fraction

EPS_SHIFTS = (1e-9, -1e-9, 1e-13, -1e-13)


# ---------------------------------------------------------------------------------------------
# enumeration families


def compositions(total, kmin=2, kmax=4):
    """Every composition of ``total`` into kmin..kmax positive integer parts (lexicographic)."""
    out = []
    for k in range(kmin, kmax + 1):
        for cuts in itertools.combinations(range(1, total), k - 1):
            b = (0,) + cuts + (total,)
            out.append([b[i + 1] - b[i] for i in range(k)])
    return out


def meshes(total):
    """Every mesh (list of tops) = subset of {1..total-1} plus {total}."""
    out = []
    for k in range(0, total):
        for s in itertools.combinations(range(1, total), k):
            out.append(list(s) + [total])
    return out


def shifted(mesh_units, scale):
    """[(mesh_cm, eps)]: the mesh itself and every variant with ONE interior point moved by eps."""
    base = [p * scale for p in mesh_units]
    out = [(base, 0.0)]
    for i in range(len(base) - 1):  # the top point is never moved: same total height
        for e in EPS_SHIFTS:
            m = list(base)
            m[i] = m[i] + e
            out.append((m, e))
    return out


def tops(heights, scale=1.0):
    z, out = 0.0, []
    for h in heights:
        z = z + h * scale
        out.append(z)
    return out


# ---------------------------------------------------------------------------------------------
# interval arithmetic


def overlaps(bounds, z0, z1):
    """Overlap length of [z0,z1] with each cell [bounds[i], bounds[i+1]] (0.0 when disjoint)."""
    return [max(0.0, min(z1, bounds[i + 1]) - max(z0, bounds[i])) for i in range(len(bounds) - 1)]


def _mul(v, f):
    if isinstance(v, (list, tuple)):
        return [x * f for x in v]
    return v * f


def _add(a, b):
    if a is None:
        return b
    if isinstance(a, list):
        return [x + y for x, y in zip(a, b)]
    return a + b


DROP = 1e-10  # getBlocksBetweenElevations documents: overlaps below this fraction of a block are discarded
DROP_MARGIN = 1e-6  # float noise around the threshold: either outcome is admissible there


def droppable(o, h):
    """An overlap the implementation may legitimately not see (thinner than 1e-10 of the source block)."""
    return 0.0 < o <= DROP * h * (1.0 + DROP_MARGIN)


def _amax(v):
    if isinstance(v, (list, tuple)):
        return max([abs(x) for x in v] or [0.0])
    return abs(v)


def _map(vals, sb, db, prev, integrated):
    """-> per destination cell (value, slack, only_slivers).
    value: every positive overlap counted; slack: summed magnitude of the contributions of
    droppable overlaps (the implementation may or may not include each of them);
    only_slivers: nothing but droppable overlaps carried a value (the previous value may survive)."""
    out = []
    for j in range(len(db) - 1):
        ov = overlaps(sb, db[j], db[j + 1])
        acc, slack, solid = None, 0.0, False
        for i, o in enumerate(ov):
            if o > 0.0 and vals[i] is not None:
                h = sb[i + 1] - sb[i]
                f = o / h if integrated else o / (db[j + 1] - db[j])
                acc = _add(acc, _mul(vals[i], f))
                if droppable(o, h):
                    slack += _amax(vals[i]) * f
                else:
                    solid = True
        if acc is None:
            out.append((prev[j] if prev else None, 0.0, False))
        else:
            out.append((acc, slack, not solid))
    return out


def map_integrated(vals, sb, db, prev=None):
    """Volume-integrated profile: dest_j = sum_i v_i * overlap_ij / h_i ; unset source cells give
    nothing; a destination cell that overlaps no set source cell keeps its previous value."""
    return _map(vals, sb, db, prev, True)


def map_averaged(vals, sb, db, prev=None):
    """Averaged profile: dest_j = sum_i v_i * overlap_ij / H_j (height-weighted mean)."""
    return _map(vals, sb, db, prev, False)


def map_peak(vals, sb, db, prev=None):
    """Peak profile: dest_j = max of the overlapped source values.  Returns (lo, hi) per cell:
    ``hi`` counts every cell with positive overlap, ``lo`` only cells whose overlap is not droppable."""
    out = []
    for j in range(len(db) - 1):
        ov = overlaps(sb, db[j], db[j + 1])
        hi = [vals[i] for i, o in enumerate(ov) if o > 0.0 and vals[i] is not None]
        lo = [vals[i] for i, o in enumerate(ov) if o > 0.0 and not droppable(o, sb[i + 1] - sb[i]) and vals[i] is not None]
        if not hi:
            p = prev[j] if prev else None
            out.append((p, p))
        else:
            out.append((max(lo) if lo else None, max(hi)))
    return out


def total_slack(vals, sb, db):
    """Largest amount of an integrated total that droppable overlaps may take away."""
    s = 0.0
    for j in range(len(db) - 1):
        for i, o in enumerate(overlaps(sb, db[j], db[j + 1])):
            h = sb[i + 1] - sb[i]
            if vals[i] is not None and droppable(o, h):
                s += _amax(vals[i]) * o / h
    return s


# ---------------------------------------------------------------------------------------------
# step-function resampling


def resample(xin, yin, xout, avg):
    """Reference for mathematics.resampleStepwise.  Returns list of (value, ambiguous):
    value 0 when the output cell overlaps nothing, None when an overlapped value is None,
    else the overlap-weighted mean (avg) or sum_i y_i * overlap_i / len_i.
    ``ambiguous`` marks avg-cells only partly covered by the input span (two readings exist)."""
    out = []
    for a, b in zip(xout[:-1], xout[1:]):
        ov = overlaps(xin, a, b)
        idx = [i for i, o in enumerate(ov) if o > 0.0]
        if not idx:
            out.append((0, False))
            continue
        if any(yin[i] is None for i in idx):
            out.append((None, False))
            continue
        partly = a < xin[0] or b > xin[-1]
        if avg:
            tot = sum(ov[i] for i in idx)
            acc = None
            for i in idx:
                acc = _add(acc, _mul(yin[i], ov[i] / tot))
            out.append((acc, partly))
        else:
            acc = None
            for i in idx:
                acc = _add(acc, _mul(yin[i], ov[i] / (xin[i + 1] - xin[i])))
            out.append((acc, False))
    return out


def inner_cells(xin, xout):
    """Indices j of output cells lying strictly inside ONE input cell (both ends interior)."""
    out = []
    for j, (a, b) in enumerate(zip(xout[:-1], xout[1:])):
        if any(xin[i] < a and b < xin[i + 1] for i in range(len(xin) - 1)):
            out.append(j)
    return out


# ---------------------------------------------------------------------------------------------
# minimum-size mesh filtering: postconditions


def filter_expect_error(points, minimum, anchors):
    """ValueError is due exactly when two anchors that are *in the mesh* are closer than minimum."""
    a = sorted(set(points) & set(anchors))
    return any(abs(a[i + 1] - a[i]) < minimum for i in range(len(a) - 1))


def filter_check(points, minimum, anchors, result):
    """Returns list of (clause, text) broken by ``result`` (a successful return value)."""
    bad = []
    res = list(result)
    if any(not (res[i] < res[i + 1]) for i in range(len(res) - 1)):
        bad.append(("not-increasing", "result %s is not strictly increasing" % res))
    extra = [p for p in res if p not in set(points)]
    if extra:
        bad.append(("invented-point", "result %s contains %s which are not candidate points" % (res, extra)))
    thin = [(res[i], res[i + 1]) for i in range(len(res) - 1) if abs(res[i + 1] - res[i]) < minimum]
    if thin:
        bad.append(("thin-cell", "result %s has cells %s thinner than %s" % (res, thin, minimum)))
    lost = [a for a in sorted(set(anchors) & set(points)) if a not in res]
    if lost:
        bad.append(("anchor-lost", "result %s lost anchor(s) %s" % (res, lost)))
    if points and not res:
        bad.append(("empty", "non-empty candidate list filtered to nothing"))
    return bad


# ---------------------------------------------------------------------------------------------
# average of rows near the average (exact rationals)


def avg1d(rows, tolerance=Fraction(1, 5), margin=Fraction(1, 10**9)):
    """Reference for average1DWithinTolerance on rows of exactly representable numbers.
    Returns (result or None when nothing is near the mean, borderline)."""
    rows = [[Fraction(x) for x in r] for r in rows]
    borderline = False
    while True:
        if not rows:
            return None, borderline
        n = len(rows)
        avg = [sum(r[c] for r in rows) / n for c in range(len(rows[0]))]
        keep = []
        for r in rows:
            d = [abs(r[c] - avg[c]) / avg[c] for c in range(len(avg))]
            if any(abs(x - tolerance) <= margin for x in d):
                borderline = True
            if not any(x > tolerance for x in d):
                keep.append(r)
        if len(keep) == len(rows):
            return [float(a) for a in avg], borderline
        rows = keep
