"""C14 - fuel shuffling conserves the inventory and keeps the core's lookups truthful.

Explicit-state breadth-first search over fuel-handling histories on the REAL objects: a reactor built
from generated blueprints, a real ``FuelHandler`` on a bare ``Operator``.  Every history is replayed
from a fresh build; after it, the reached state is compared with a boring reference model
(``Model``: location -> assembly label, pool list, purged list, per-assembly mobile blocks, per-holder
stationary blocks, move counts) written here independently of armi.

Initial states: cores {third-core 7, full-core 7, 3-assembly mini cores with an empty location}
x spent-fuel tracking {on, off} x stationary blocks {none, GRID_PLATE in every design at the same
axial index, GRID_PLATE at differing axial indices ("mixed": swaps between the designs must be
refused)} x pool {declared in the blueprints and empty, declared and already holding two assemblies from the
blueprints (so that a stored-for-discharged swap is enabled from the start in every tracking mode),
not declared (ARMI adds its default pool)}.

Alphabet (ops are JSON lists, locations are indices into the init's location universe):
  ["swap", i, j]        FuelHandler.swapAssemblies(a_i, a_j)
  ["casc", i, j, k]     FuelHandler.swapCascade([a_i, a_j, a_k])
  ["dfresh", d, i]      FuelHandler.dischargeSwap(core.createAssemblyOfType(design d), a_i)
  ["dpool", p, i]       FuelHandler.dischargeSwap(pooled assembly p, a_i)
  ["remove", i, dis]    core.removeAssembly(a_i, discharge=bool(dis))
  ["add", d, i, form]   core.add(fresh of design d, empty location i): form 0 = locator passed to add(),
                        form 1 = locator assigned to the assembly first, add() without locator
  ["replace", d, i, dis] fresh.spatialLocator = loc_i; core.removeAssembly(a_i, dis); core.add(fresh)
  ["readdocc", a]       the same while that place has been refilled: contract ValueError, state unchanged
  ["swapself", i]       FuelHandler.swapAssemblies(a_i, a_i): misuse, must leave the state intact
  ["readd", a]          core.add(purged assembly a) back at the (free) place it was taken from, located
                        by the detached locator it still carries
  ["addocc", d, i]      core.add(fresh, OCCUPIED location i)   contract: ValueError, state unchanged
  ["addout", d]         core.add(fresh, a location outside the third-core domain)  contract: LookupError, unchanged
Contracts: differing stationary layouts => ValueError with the state unchanged.

Oracle in the reached state of every history (``check``): inventory (children + pool = model, no
duplicate, none lost, no purged one present), placement (parent, grid, indices, one per location),
childrenByLocator exact + getAssemblyWithStringLocation for every location of the universe,
getAssemblyByName / getBlockByName find every core/pool assembly and block under its current name
and never return a purged object, getAssemblies agrees with the children, content (block identity and
order per the stationary exchange rule, block parent/axial index, per-block content fingerprint:
type, height, per component class/material/temperatures/dimensions/links/number densities, full
assembly mass), numMoves.
"""
import hashlib
import json

from mcverif import build, core as mc, explore

PROPERTY = "C14"
LEVEL = "model_checking"
MOD = "mcverif.checks.c14"
K = "c14/"
DESIGNS = ["igniter fuel", "outer fuel"]
SPECIFIER = {"IC": "igniter fuel", "OC": "outer fuel"}
# block mass x symmetry factor: the volume is divided by the symmetry factor of the location (3 at the
# centre of a third core) and multiplied back here: relative 1e-10 (DESIGN 3.4)
MASS_RTOL = 1e-10
# a cell that is not in the represented third of a third-core hex grid (polar angle 180 degrees)
OUTSIDE_THIRD = (-2, 1)
# assemblies a "filled" pool holds from the blueprints: (pool cell, specifier), labels p0, p1
# stationary settings: kind -> stationaryBlockFlags. Every assembly of the stationary specs is
# [grid plate, fuel, plenum], so the kinds put the stationary block(s) at the bottom, the top, both
# ends, the middle, everywhere; the exchange re-inserts a block at the start / middle / end of the list
STAT_FLAGS = {
    "none": [],
    "gp": ["GRID_PLATE"],
    "top": ["PLENUM"],
    "both": ["GRID_PLATE", "PLENUM"],
    "mid": ["FUEL"],
    "all": ["GRID_PLATE", "FUEL", "PLENUM"],
    "mixed": ["GRID_PLATE"],
}
FLAG_BLOCK = {"GRID_PLATE": "grid plate", "FUEL": "fuel", "PLENUM": "plenum"}
# the layout-pair family: IC is always [grid plate, fuel, shield, plenum]; the OC stack puts the
# flagged blocks so that, pair by pair, positions are aligned (a) or misaligned (m) with IC's, or the
# counts differ (c): name -> (flags, OC stack)
IC_STACK = ["grid plate", "fuel", "shield", "plenum"]
PAIR_FAMILY = {
    "am": (["GRID_PLATE", "PLENUM"], ["grid plate", "plenum", "fuel", "shield"]),
    "ma": (["GRID_PLATE", "PLENUM"], ["fuel", "grid plate", "shield", "plenum"]),
    "mm": (["GRID_PLATE", "PLENUM"], ["fuel", "grid plate", "plenum", "shield"]),
    "ca": (["GRID_PLATE", "PLENUM"], ["grid plate", "fuel", "shield", "fuel"]),
    "cm": (["GRID_PLATE", "PLENUM"], ["fuel", "grid plate", "shield", "fuel"]),
    "aam": (["GRID_PLATE", "FUEL", "PLENUM"], ["grid plate", "fuel", "plenum", "shield"]),
    "ama": (["GRID_PLATE", "FUEL", "PLENUM"], ["grid plate", "shield", "fuel", "plenum"]),
    "aa": (["GRID_PLATE", "PLENUM"], ["grid plate", "shield", "fuel", "plenum"]),
}


def stat_flags(init):
    return list(init["flags"]) if init.get("flags") is not None else list(STAT_FLAGS[init["stat"]])
POOL_FILL = [([0, 0], "IC"), ([1, 0], "OC")]

# name -> hex_spec arguments, occupied cells (None = every in-domain cell), extra empty locations
CORES = {
    "third7": {"rings": 3, "third": True, "cells": None, "extra": []},
    "full7": {"rings": 2, "third": False, "cells": None, "extra": []},
    "third3": {"rings": 3, "third": True, "cells": [[0, 0], [1, 0], [2, 0]], "extra": [[0, 1]]},
    "full3": {"rings": 3, "third": False, "cells": [[0, 0], [1, 0], [2, 0]], "extra": [[-1, 0]]},
    "third4": {"rings": 3, "third": True, "cells": [[0, 0], [1, 0], [2, 0], [2, -1]], "extra": [[0, 1]]},
}


# ---------------------------------------------------------------------------------------------
# initial states (pure data)


def make_spec(init):
    c = CORES[init["core"]]
    spec = build.hex_spec(
        rings=c["rings"],
        third=c["third"],
        cells=[tuple(x) for x in c["cells"]] if c["cells"] else None,
        grid_plate=init["stat"] != "none" and not init.get("stacks"),
        sfp=bool(init.get("sfp", True)),
        sfp_contents={tuple(c): sp for c, sp in POOL_FILL} if init.get("poolfill") else None,
    )
    if init.get("stacks"):
        # four-block designs given block by block (layout-pair family): same heights at every level,
        # so that only the POSITIONS of the stationary blocks differ between the two designs
        spec["blocks"]["grid plate"] = build.grid_plate_block()
        spec["blocks"]["shield"] = build.shield_block()
        for sp, dname, u, zr, xs in (("IC", "igniter fuel", 0.11, 0.06, "A"), ("OC", "outer fuel", 0.2, 0.1, "C")):
            stack = list(init["stacks"][sp])
            mm = {"U235_wt_frac": [u if b == "fuel" else "" for b in stack], "ZR_wt_frac": [zr if b == "fuel" else "" for b in stack]}
            spec["assemblies"][dname] = build.assem(sp, stack, [10.0, 25.0, 20.0, 30.0], [xs] * 4, mm)
    if init["stat"] == "mixed":
        # the outer design carries its grid plate one level higher: layouts differ between designs
        a = spec["assemblies"]["outer fuel"]
        for key in ("blocks", "xs"):
            a[key][0], a[key][1] = a[key][1], a[key][0]
        for v in a.get("matmods", {}).values():
            v[0], v[1] = v[1], v[0]
    return spec


def universe_of(init, spec):
    cells = sorted(tuple(k) for k in spec["grids"]["core"]["contents"])
    cells.sort(key=lambda c: (build.hexdist(*c), c))
    return [list(c) for c in cells] + [list(x) for x in CORES[init["core"]]["extra"]]


# ---------------------------------------------------------------------------------------------
# reference model


class Model:
    """What the property says a fuel-handling history does; knows nothing about armi."""

    def __init__(self, init, spec):
        self.track = bool(init["track"])
        self.flags = bool(stat_flags(init))
        self.statblocks = {FLAG_BLOCK[f] for f in stat_flags(init)}
        self.lastcell = {}  # purged label -> location index it was taken from
        self.blocks = {name: list(a["blocks"]) for name, a in spec["assemblies"].items()}
        self.heights = {name: list(a["heights"]) for name, a in spec["assemblies"].items()}
        self.universe = universe_of(init, spec)
        self.loc = {}  # location index -> label
        self.design = {}  # label -> design name
        self.mobile = {}  # label -> [(k, block label)]   blocks that travel with the assembly
        self.stat = {}  # ("L", idx) | ("A", label) -> [(k, block label)]  blocks that stay with the holder
        self.moves = {}
        self.pool = []
        self.purged = []
        self.nfresh = 0
        contents = {tuple(k): v for k, v in spec["grids"]["core"]["contents"].items()}
        for idx, cell in enumerate(self.universe):
            if tuple(cell) in contents:
                label = "a%d" % idx
                self._new(label, SPECIFIER[contents[tuple(cell)]])
                self.loc[idx] = label
                self.stat[("L", idx)] = self.stat.pop(("A", label))
                self.moves[label] = 1  # placed once when the core was loaded
        self.pool_cells = {}
        if init.get("poolfill"):
            for n, (cell, sp) in enumerate(POOL_FILL):
                label = "p%d" % n
                self._new(label, SPECIFIER[sp])  # never placed in the core: 0 moves
                self.pool.append(label)
                self.pool_cells[label] = list(cell)

    def layout(self, dname):
        return [k for k, bn in enumerate(self.blocks[dname]) if bn in self.statblocks]

    def _new(self, label, dname):
        st = self.layout(dname)
        self.design[label] = dname
        n = len(self.blocks[dname])
        self.mobile[label] = [(k, "%s.%d" % (label, k)) for k in range(n) if k not in st]
        self.stat[("A", label)] = [(k, "%s.%d" % (label, k)) for k in st]
        self.moves[label] = 0

    def fresh_label(self, d):
        self.nfresh += 1
        label = "f%d" % self.nfresh
        self._new(label, DESIGNS[d])
        return label

    def forget(self, label):
        """A fresh assembly made for an operation that was refused: never entered the plant."""
        for t in (self.design, self.mobile, self.moves):
            t.pop(label, None)
        self.stat.pop(("A", label), None)

    def lay(self, label):
        return self.layout(self.design[label])

    def expected_blocks(self, label):
        holder = ("A", label)
        for idx, l in self.loc.items():
            if l == label:
                holder = ("L", idx)
        return [bl for _k, bl in sorted(self.mobile[label] + self.stat.get(holder, []))]

    def live(self):
        return list(self.loc.values()) + list(self.pool)

    # expectation of an operation in the current state: "ok" | "refused:ValueError" | None (not enabled)
    def expect(self, op, inc=None):
        kind = op[0]
        if kind == "swap":
            return "ok" if self.lay(self.loc[op[1]]) == self.lay(self.loc[op[2]]) else "refused:ValueError"
        if kind == "casc":
            la, lb, lc = (self.lay(self.loc[i]) for i in op[1:4])
            if la != lb:
                return "refused:ValueError"
            return "ok" if la == lc else None  # a cascade refused half-way is not in the alphabet
        if kind == "dfresh":
            return "ok" if self.layout(DESIGNS[op[1]]) == self.lay(self.loc[op[2]]) else "refused:ValueError"
        if kind == "dpool":
            return "ok" if self.lay(op[1]) == self.lay(self.loc[op[2]]) else "refused:ValueError"
        if kind in ("remove", "add", "replace"):
            return "ok"
        if kind == "readd":
            return "ok" if op[1] in self.purged and self.lastcell.get(op[1]) not in self.loc else None
        if kind == "addocc":
            return "refused:ValueError"
        if kind == "readdocc":
            return "refused:ValueError" if op[1] in self.purged and self.lastcell.get(op[1]) in self.loc else None
        if kind == "swapself":
            return "self"
        if kind == "addout":
            return "refused:LookupError"
        raise ValueError(op)

    def _discharge(self, label, tracked=True, cell=None):
        if tracked and self.track:
            self.pool.append(label)
        else:
            self.purged.append(label)
            self.lastcell[label] = cell

    def commit(self, op, inc=None):
        kind = op[0]
        if kind == "swap":
            i, j = op[1], op[2]
            self.loc[i], self.loc[j] = self.loc[j], self.loc[i]
            self.moves[self.loc[i]] += 1
            self.moves[self.loc[j]] += 1
        elif kind == "casc":
            # [A <- B <- C]: B takes A's place, C takes B's, A takes C's; done as len-1 swaps with A
            i, j, k = op[1:4]
            a, b, c = self.loc[i], self.loc[j], self.loc[k]
            self.loc[i], self.loc[j], self.loc[k] = b, c, a
            self.moves[a] += 2
            self.moves[b] += 1
            self.moves[c] += 1
        elif kind in ("dfresh", "dpool"):
            i = op[2]
            out = self.loc[i]
            # the location keeps its stationary blocks; the outgoing one leaves with the incoming one's
            self.stat[("A", out)] = self.stat.pop(("A", inc))
            self.loc[i] = inc
            self.moves[inc] += 1
            if inc in self.pool:
                self.pool.remove(inc)
            self._discharge(out, cell=i)
        elif kind == "remove":
            i = op[1]
            a = self.loc.pop(i)
            self.stat[("A", a)] = self.stat.pop(("L", i))
            self._discharge(a, tracked=bool(op[2]), cell=i)
        elif kind == "add":
            i = op[2]
            self.loc[i] = inc
            self.stat[("L", i)] = self.stat.pop(("A", inc))
            self.moves[inc] += 1
        elif kind == "replace":
            # plain remove + add at the same place: no exchange, each keeps its own blocks
            self.commit(["remove", op[2], op[3]])
            self.commit(["add", op[1], op[2]], inc)
        elif kind == "readd":
            a = op[1]
            i = self.lastcell.pop(a)
            self.purged.remove(a)
            self.loc[i] = a
            self.stat[("L", i)] = self.stat.pop(("A", a))
            self.moves[a] += 1
        else:
            raise ValueError(op)

    # canonical description of a label: fresh assemblies of one design are interchangeable
    def desc(self, label):
        return label if label[0] in "ap" else "F:" + ("IC" if self.design[label] == DESIGNS[0] else "OC")

    def bdesc(self, bl):
        label, k = bl.rsplit(".", 1)
        return self.desc(label) + "." + k


def enabled_ops(m, init):
    """Operations enabled in the model state, simplest first, within the init's alphabet bounds."""
    al = init["alpha"]
    occ = sorted(m.loc)
    emp = [i for i in range(len(m.universe)) if i not in m.loc]
    ops = []
    for x, i in enumerate(occ):
        for j in occ[x + 1 :]:
            ops.append(["swap", i, j])
    for i in occ[: al.get("swapself", 0)]:
        ops.append(["swapself", i])
    for i in occ:
        for dis in (1, 0):
            ops.append(["remove", i, dis])
    for d in al["fresh"]:
        for i in occ:
            ops.append(["dfresh", d, i])
    for d in al["fresh"]:
        for i in emp:
            for form in al.get("addforms", [0]):
                ops.append(["add", d, i, form])
    if al.get("replace"):
        for i in occ:
            for dis in (1, 0):
                ops.append(["replace", al["fresh"][0], i, dis])
    if al.get("readd"):
        for a in m.purged[-al["readd"] :]:
            if m.lastcell.get(a) is not None:
                ops.append(["readd" if m.lastcell[a] not in m.loc else "readdocc", a])
    for i in occ[: al.get("addocc", 0)]:
        for form in al.get("addforms", [0]):
            ops.append(["addocc", al["fresh"][0], i, form])
    if al.get("addout") and CORES[init["core"]]["third"]:
        ops.append(["addout", al["fresh"][0]])
    for p in m.pool[-al.get("pool", 99) :]:
        for i in occ:
            ops.append(["dpool", p, i])
    tr = al.get("triples", "none")
    if tr != "none":
        base = occ if tr == "all" else occ[: (3 if tr == "rot" else 4)]
        for i in base:
            for j in base:
                for k in base:
                    if len({i, j, k}) != 3:
                        continue
                    if tr == "rot" and i != min(i, j, k):
                        continue  # one representative per rotation: same final arrangement
                    op = ["casc", i, j, k]
                    if m.expect(op) is not None:
                        ops.append(op)
    return ops


# ---------------------------------------------------------------------------------------------
# real state


class S:
    pass


_OPERATORS = {}


def _operator(cs):
    """A bare Operator is scaffolding (settings + empty interface stack); one per settings object and
    worker process; its reactor reference is replaced for every execution."""
    from armi.operators.operator import Operator

    o = _OPERATORS.get(id(cs))
    if o is None:
        o = _OPERATORS[id(cs)] = Operator(cs)
    o.interfaces = []
    return o


def _dig(x):
    return hashlib.sha1(json.dumps(x, sort_keys=True, default=repr).encode()).hexdigest()[:16]


def block_fp(b):
    """Content of a block: nothing here depends on where the block or its assembly sits."""
    out = [b.getType(), repr(float(b.getHeight())), len(b)]
    for c in b:
        dims = []
        for dn in c.DIMENSION_NAMES:
            raw = c.p[dn]
            if isinstance(raw, tuple) and len(raw) == 2 and hasattr(raw[0], "DIMENSION_NAMES"):
                dims.append([dn, "link", raw[0].name, raw[1], raw[0].parent is b])
            else:
                dims.append([dn, repr(raw)])
            try:
                dims.append([dn + "@hot", repr(c.getDimension(dn))])
            except Exception as e:  # DerivedShape has no own dimensions
                dims.append([dn + "@hot", "raises " + type(e).__name__])
        nd = sorted((k, repr(float(v))) for k, v in c.getNumberDensities().items())
        out.append([c.name, type(c).__name__, type(c.material).__name__, repr(c.inputTemperatureInC), repr(c.temperatureInC), dims, nd, c.parent is b])
    return _dig(out)


def _register(s, a, label):
    s.lab[id(a)] = label
    s.obj[label] = a
    for k, b in enumerate(a):
        bl = "%s.%d" % (label, k)
        s.blab[id(b)] = bl
        s.bobj[bl] = b
        s.fp[bl] = block_fp(b)
        s.mass[bl] = float(b.getMass()) * float(b.getSymmetryFactor())


def build_state(init):
    from armi.physics.fuelCycle.fuelHandlers import FuelHandler

    spec = make_spec(init)
    flags = stat_flags(init)
    cs = build.settings(trackAssems=bool(init["track"]), stationaryBlockFlags=flags)
    r = build.reactor(spec, cs=cs, seed=1400 + int(init.get("seed", 0)))
    o = _operator(cs)
    o.r = r
    s = S()
    s.r, s.core, s.cs, s.o = r, r.core, cs, o
    s.sfp = r.excore.get("sfp")
    s.fh = FuelHandler(o)
    s.lab, s.obj, s.blab, s.bobj, s.fp, s.mass = {}, {}, {}, {}, {}, {}
    m = Model(init, spec)
    s.universe = m.universe
    # label the loaded assemblies by scanning the child list (not through a lookup under test)
    for idx, label in m.loc.items():
        cell = tuple(m.universe[idx])
        hits = [a for a in s.core if (int(a.spatialLocator.i), int(a.spatialLocator.j)) == cell]
        if len(hits) != 1:
            raise RuntimeError("build: %d assemblies at %s" % (len(hits), cell))
        _register(s, hits[0], label)
        want = m.design[label]
        if hits[0].getType() != want or [float(b.getHeight()) for b in hits[0]] != m.heights[want] or [b.getType() for b in hits[0]] != m.blocks[want]:
            raise RuntimeError("build: %s is not a %s as specified" % (label, want))
    if len(s.core) != len(m.loc):
        raise RuntimeError("build: core has %d children, spec %d" % (len(s.core), len(m.loc)))
    for label in m.pool:
        cell = tuple(m.pool_cells[label])
        hits = [a for a in s.sfp if (int(a.spatialLocator.i), int(a.spatialLocator.j)) == cell]
        if len(hits) != 1 or hits[0].getType() != m.design[label]:
            raise RuntimeError("build: pool cell %s does not hold one %s" % (cell, m.design[label]))
        _register(s, hits[0], label)
    if len(s.sfp) != len(m.pool):
        raise RuntimeError("build: pool has %d children, spec %d" % (len(s.sfp), len(m.pool)))
    if bool(flags) != bool(s.core.stationaryBlockFlagsList) or bool(s.core._trackAssems) != bool(init["track"]):
        raise RuntimeError("build: settings did not reach the core")
    return s, m


def _fresh(s, m, d):
    a = s.core.createAssemblyOfType(DESIGNS[d], cs=s.cs)
    label = m.fresh_label(d)
    _register(s, a, label)
    return a, label


def snapshot(s):
    """Structural snapshot by object identity (to decide 'a refusal left the state unchanged')."""
    out = {"core": [id(a) for a in s.core], "pool": [id(a) for a in s.sfp] if s.sfp is not None else None}
    out["cbl"] = sorted((repr(k), id(v)) for k, v in s.core.childrenByLocator.items())
    out["abn"] = sorted((k, id(v)) for k, v in s.core.assembliesByName.items())
    out["bbn"] = sorted((k, id(v)) for k, v in s.core.blocksByName.items())
    ass = []
    inplant = {id(x) for x in list(s.core) + (list(s.sfp) if s.sfp is not None else [])}
    known = list(s.obj.values())
    for a in known + [x for x in list(s.core) + (list(s.sfp) if s.sfp is not None else []) if id(x) not in s.lab]:
        sl = a.spatialLocator
        if id(a) in inplant:
            ass.append([id(a), a.getName(), id(a.parent), repr(sl), id(getattr(sl, "grid", None)), float(a.p.numMoves), [(id(b), b.getName(), id(b.parent), repr(b.spatialLocator)) for b in a]])
        else:
            # an assembly outside the plant (fresh, purged): its blocks and their order must not change
            # either; its placeholder name/number is not plant state (a refused dischargeSwap may have
            # given a fresh assembly its final number already)
            ass.append([id(a), id(a.parent), [(id(b), id(b.parent), int(b.spatialLocator.k)) for b in a]])
    out["assemblies"] = ass
    return out


def _snapdiff(a, b):
    return [k for k in a if a[k] != b[k]]


def apply_op(s, m, op, init, viols, case):
    """Run ONE operation on the real objects, compare its outcome with the model's expectation,
    advance the model. Returns the outcome label."""
    kind = op[0]
    exp = m.expect(op)
    if exp is None:
        raise RuntimeError("operation %s not in the alphabet of this state" % (op,))
    inc = None
    if kind == "swapself":
        # misuse: an assembly swapped with itself. Whatever the call does (nothing, or a refusal), the
        # state must stay intact; only the move counter is left to the implementation.
        a = s.obj[m.loc[op[1]]]
        try:
            s.fh.swapAssemblies(a, a)
            out = "ok"
        except Exception as e:  # noqa: BLE001
            out = "refused:" + type(e).__name__
        m.moves[m.loc[op[1]]] = float(a.p.numMoves)
        return out
    before = snapshot(s) if exp != "ok" else None
    stat = "stationary" if m.flags else "nostationary"
    pool = "" if init.get("sfp", True) else "default-pool/"
    try:
        if kind == "swap":
            s.fh.swapAssemblies(s.obj[m.loc[op[1]]], s.obj[m.loc[op[2]]])
        elif kind == "casc":
            s.fh.swapCascade([s.obj[m.loc[i]] for i in op[1:4]])
        elif kind == "dfresh":
            f, inc = _fresh(s, m, op[1])
            before = snapshot(s) if exp != "ok" else None
            s.fh.dischargeSwap(f, s.obj[m.loc[op[2]]])
        elif kind == "dpool":
            inc = op[1]
            s.fh.dischargeSwap(s.obj[inc], s.obj[m.loc[op[2]]])
        elif kind == "remove":
            s.core.removeAssembly(s.obj[m.loc[op[1]]], discharge=bool(op[2]))
        elif kind in ("add", "addocc"):
            f, inc = _fresh(s, m, op[1])
            before = snapshot(s) if exp != "ok" else None
            i, j = m.universe[op[2]]
            if len(op) > 3 and op[3] == 1:
                # the assembly carries the core locator itself, add() gets no locator
                f.spatialLocator = s.core.spatialGrid[i, j, 0]
                s.core.add(f)
            else:
                s.core.add(f, s.core.spatialGrid[i, j, 0])
        elif kind == "replace":
            # remove-and-replace with the locator handed to the new assembly BEFORE the old one leaves
            f, inc = _fresh(s, m, op[1])
            i, j = m.universe[op[2]]
            f.spatialLocator = s.core.spatialGrid[i, j, 0]
            s.core.removeAssembly(s.obj[m.loc[op[2]]], discharge=bool(op[3]))
            s.core.add(f)
        elif kind in ("readd", "readdocc"):
            # a purged assembly goes back where it was: it still carries a detached copy of that locator
            s.core.add(s.obj[op[1]])
        elif kind == "addout":
            f, inc = _fresh(s, m, op[1])
            before = snapshot(s)
            s.core.add(f, s.core.spatialGrid[OUTSIDE_THIRD[0], OUTSIDE_THIRD[1], 0])
        else:
            raise RuntimeError("unknown op %s" % (op,))
        out = "ok"
    except Exception as e:  # noqa: BLE001 - classified below
        out = "raised:" + type(e).__name__
        err = "%s: %s" % (type(e).__name__, " ".join(str(e).split())[:160])
    if exp == "ok":
        if out == "ok":
            m.commit(op, inc)
            return "ok"
        aftermath = _aftermath(s, m, op)
        group = "discharge" if kind in ("remove", "dfresh", "dpool") and pool else kind
        viols.append(mc.viol("%s%s%s-raises-%s/%s" % (K, pool, group, out.split(":")[1], stat), "%s in %s raised %s; %s" % (op, _ini(init), err, aftermath), case))
        return out
    # a refusal is expected
    want = exp.split(":")[1]
    if out == "ok":
        viols.append(mc.viol("%s%s-not-refused/%s" % (K, kind, stat), "%s in %s must be refused with %s but was carried out" % (op, _ini(init), want), case))
        return "notrefused"
    got = out.split(":")[1]
    if got != want:
        viols.append(mc.viol("%s%s-refusal-raises-%s" % (K, kind, got), "%s in %s must be refused with %s, raised %s" % (op, _ini(init), want, err), case))
    changed = _snapdiff(before, snapshot(s))
    if changed:
        what = []
        if "core" in changed:
            what.append("core children %d -> %d" % (len(before["core"]), len(s.core)))
        viols.append(mc.viol("%s%s-refusal-changes-state" % (K, kind), "%s in %s was refused (%s) but the state changed: %s %s" % (op, _ini(init), err, changed, "; ".join(what)), case))
    if inc is not None and inc.startswith("f") and kind in ("dfresh", "add", "addocc", "addout"):
        m.forget(inc)
    return "refused:" + got


def _aftermath(s, m, op):
    """Where the assembly an operation was working on ended up after an unexpected exception."""
    try:
        if op[0] in ("remove", "dfresh", "dpool", "replace"):
            label = m.loc[op[1] if op[0] == "remove" else op[2]]
            a = s.obj[label]
            inc = any(x is a for x in s.core)
            inp = s.sfp is not None and any(x is a for x in s.sfp)
            byname = any(v is a for v in s.core.assembliesByName.values())
            return "afterwards assembly %s is in core children: %s, in the pool: %s, still returned by getAssemblyByName: %s" % (label, inc, inp, byname)
    except Exception as e:  # pragma: no cover
        return "aftermath unavailable (%s)" % type(e).__name__
    return ""


def _ini(init):
    return "%s/track=%s/stationary=%s/%s" % (init["core"], "on" if init["track"] else "off", init["stat"], ("filled pool" if init.get("poolfill") else "declared pool") if init.get("sfp", True) else "default pool")


# ---------------------------------------------------------------------------------------------
# oracle


def check(s, m, init, hist):
    """All clauses of the property in the reached state. Returns [(key suffix, message)]."""
    bad = []
    last = hist[-1][0] if hist else "init"
    ctxt = "%s/%s" % (last, "stationary" if m.flags else "nostationary")

    def v(what, msg):
        bad.append(("%s/after-%s" % (what, ctxt), msg))

    core, sfp = s.core, s.sfp
    kids = list(core)
    pkids = list(sfp) if sfp is not None else []
    lab = lambda o: s.lab.get(id(o)) or s.blab.get(id(o)) or "<unknown %s>" % getattr(o, "name", "?")  # noqa: E731

    # 1. inventory ---------------------------------------------------------------------------
    ids = [id(a) for a in kids + pkids]
    if len(set(ids)) != len(ids):
        dup = sorted(lab(a) for a in kids + pkids if ids.count(id(a)) > 1)
        v("inventory-duplicate", "assembly held twice (core children + pool): %s" % dup)
    unknown = [a for a in kids + pkids if id(a) not in s.lab]
    if unknown:
        v("inventory-unknown-object", "children that were never loaded or charged: %s" % [getattr(a, "name", "?") for a in unknown])
    got_core = sorted(lab(a) for a in kids if id(a) in s.lab)
    got_pool = sorted(lab(a) for a in pkids if id(a) in s.lab)
    want_core, want_pool = sorted(m.loc.values()), sorted(m.pool)
    if got_core != want_core:
        lost = sorted(set(want_core) - set(got_core))
        extra = sorted(set(got_core) - set(want_core))
        v("inventory-core-%s" % ("lost" if lost else "extra"), "core children %s, model %s (lost %s, extra %s)" % (got_core, want_core, lost, extra))
    if got_pool != want_pool:
        lost = sorted(set(want_pool) - set(got_pool))
        extra = sorted(set(got_pool) - set(want_pool))
        v("inventory-pool-%s" % ("lost" if lost else "extra"), "pool children %s, model %s (lost %s, extra %s)" % (got_pool, want_pool, lost, extra))
    # the public listing agrees with the children
    try:
        ga = sorted(lab(a) for a in core.getAssemblies())
        gs = sorted(lab(a) for a in core.getAssemblies(includeSFP=True))
        if ga != sorted(lab(a) for a in kids) or gs != sorted(lab(a) for a in kids + pkids):
            v("getAssemblies-differs", "getAssemblies() %s / includeSFP %s vs children %s + pool %s" % (ga, gs, got_core, got_pool))
    except Exception as e:  # noqa: BLE001
        v("getAssemblies-raises-" + type(e).__name__, "core.getAssemblies raised %r" % (e,))

    # 2. placement ---------------------------------------------------------------------------
    seen_cells = {}
    for a in kids:
        sl = a.spatialLocator
        if getattr(sl, "grid", None) is not core.spatialGrid:
            v("placement-core-child-off-grid", "%s is a core child but its locator %r is not on the core grid" % (lab(a), sl))
            continue
        cell = (int(sl.i), int(sl.j), int(sl.k))
        if cell in seen_cells:
            v("location-double-occupied", "%s and %s both sit at %s" % (seen_cells[cell], lab(a), cell))
        seen_cells[cell] = lab(a)
    for idx, label in sorted(m.loc.items()):
        a = s.obj[label]
        sl = a.spatialLocator
        cell = tuple(m.universe[idx]) + (0,)
        if a.parent is not core:
            v("placement-parent", "%s should be in the core at %s, parent is %r" % (label, cell, a.parent))
        elif getattr(sl, "grid", None) is core.spatialGrid and (int(sl.i), int(sl.j), int(sl.k)) != cell:
            v("placement-wrong-location", "%s sits at %s, the operations put it at %s" % (label, (int(sl.i), int(sl.j), int(sl.k)), cell))
        elif getattr(sl, "grid", None) is core.spatialGrid and a.getLocation() != core.spatialGrid.getLabel(cell[:2]):
            v("placement-getLocation", "%s at %s reports location %r, the grid labels that cell %r" % (label, cell, a.getLocation(), core.spatialGrid.getLabel(cell[:2])))
    pcells = {}
    for label in m.pool:
        a = s.obj[label]
        sl = a.spatialLocator
        if sfp is None or a.parent is not sfp:
            v("placement-pool-parent", "%s should be in the pool, parent is %r" % (label, a.parent))
            continue
        if getattr(sl, "grid", None) is not sfp.spatialGrid:
            v("placement-pool-off-grid", "%s is in the pool but its locator %r is not on the pool grid" % (label, sl))
            continue
        cell = (int(sl.i), int(sl.j), int(sl.k))
        if cell in pcells:
            v("pool-location-double-occupied", "%s and %s both sit at pool location %s" % (pcells[cell], label, cell))
        pcells[cell] = label
        if a.getLocation() != a.SPENT_FUEL_POOL:
            v("pool-getLocation", "%s in the pool reports location %r" % (label, a.getLocation()))

    # 3. lookup by location ------------------------------------------------------------------
    want_cbl = {tuple(m.universe[idx]) + (0,): label for idx, label in m.loc.items()}
    got_cbl = {}
    for k, o in core.childrenByLocator.items():
        if k is None or getattr(k, "grid", None) is not core.spatialGrid:
            v("childrenByLocator-foreign-key", "key %r (not a core-grid location) -> %s" % (k, lab(o)))
            continue
        got_cbl[(int(k.i), int(k.j), int(k.k))] = lab(o)
    if got_cbl != want_cbl:
        stale = sorted(c for c in got_cbl if c not in want_cbl)
        missing = sorted(c for c in want_cbl if c not in got_cbl)
        wrong = sorted(c for c in want_cbl if c in got_cbl and got_cbl[c] != want_cbl[c])
        what = "stale-entry" if stale else ("missing-entry" if missing else "wrong-assembly")
        v("childrenByLocator-" + what, "childrenByLocator %s, present %s (stale %s, missing %s, wrong %s)" % (sorted(got_cbl.items()), sorted(want_cbl.items()), stale, missing, wrong))
    for idx, cell in enumerate(m.universe):
        want = m.loc.get(idx)
        try:
            o = core.getAssemblyWithStringLocation(core.spatialGrid.getLabel((cell[0], cell[1])))
            got = None if o is None else lab(o)
        except Exception as e:  # noqa: BLE001
            got = "raises " + type(e).__name__
        if got != want:
            v("lookup-by-location", "getAssemblyWithStringLocation(%s) -> %s, present there: %s" % (cell, got, want))
            break

    # 4. lookup by name ----------------------------------------------------------------------
    names = {}
    unreg = []
    for label in m.live():
        a = s.obj[label]
        n = a.getName()
        if label[0] == "p" and m.moves[label] == 0 and label in m.pool:
            # loaded into the pool by the blueprints and never touched since: one mechanism, one key
            if n in names:
                v("assembly-name-collision", "%s and %s are both named %s" % (names[n], label, n))
            names[n] = label
            miss = []
            try:
                if core.getAssemblyByName(n) is not a:
                    miss.append("assembly -> another object")
            except KeyError:
                miss.append("assembly")
            for b in a:
                try:
                    if core.getBlockByName(b.getName()) is not b:
                        miss.append("block %s -> another object" % lab(b))
                except KeyError:
                    miss.append("block " + lab(b))
            if miss:
                unreg.append("%s (%s)" % (label, ", ".join(miss)))
            continue
        if n in names:
            v("assembly-name-collision", "%s and %s are both named %s" % (names[n], label, n))
        names[n] = label
        where = "core" if label in m.loc.values() else "pool"
        try:
            o = core.getAssemblyByName(n)
            if o is not a:
                v("assembly-lookup-wrong-object/%s" % where, "getAssemblyByName(%r) -> %s, %s carries that name" % (n, lab(o), label))
        except KeyError:
            v("assembly-lookup-misses-%s-assembly" % where, "getAssemblyByName(%r) raises KeyError; %s (in the %s) carries that name" % (n, label, where))
        for b in a:
            bn = b.getName()
            try:
                o = core.getBlockByName(bn)
                if o is not b:
                    v("block-lookup-wrong-object/%s" % where, "getBlockByName(%r) -> %s, block %s of %s carries that name" % (bn, lab(o), lab(b), label))
            except KeyError:
                v("block-lookup-misses-%s-block" % where, "getBlockByName(<current name of %s>) raises KeyError; the block is in %s which is in the %s" % (lab(b), label, where))
    if unreg:
        bad.append(("lookup-misses-blueprint-pool-assembly", "assemblies the blueprints put into the pool are not found by getAssemblyByName/getBlockByName under their current names (KeyError): %s" % "; ".join(unreg)))
    bnames = {}
    for label in m.live():
        for b in s.obj[label]:
            if b.getName() in bnames:
                v("block-name-collision", "%s and %s are both named %s" % (bnames[b.getName()], lab(b), b.getName()))
            bnames[b.getName()] = lab(b)
    purged_a = {id(s.obj[l]): l for l in m.purged}
    purged_b = {}
    for l in m.purged:
        for bl in m.expected_blocks(l):
            purged_b[id(s.bobj[bl])] = bl
    for n, o in core.assembliesByName.items():
        if id(o) in purged_a:
            v("assembly-lookup-returns-purged", "getAssemblyByName(%r) returns %s, which was purged" % (n, purged_a[id(o)]))
    for n, o in core.blocksByName.items():
        if id(o) in purged_b:
            v("block-lookup-returns-purged", "getBlockByName(<%s>) returns block %s of a purged assembly" % ("its current name" if o.getName() == n else "a former name of " + lab(o), purged_b[id(o)]))

    # 5. content -----------------------------------------------------------------------------
    for label in m.live():
        a = s.obj[label]
        want = m.expected_blocks(label)
        got = [lab(b) for b in a]
        if got != want:
            v("content-block-order", "%s holds blocks %s, expected %s" % (label, got, want))
            continue
        for k, b in enumerate(a):
            if b.parent is not a:
                v("content-block-parent", "block %s at index %d of %s has parent %r" % (lab(b), k, label, b.parent))
            sl = b.spatialLocator
            if getattr(sl, "grid", None) is not a.spatialGrid or int(sl.k) != k:
                v("content-block-axial-index", "block %s is child %d of %s but its locator is %r (on the assembly grid: %s)" % (lab(b), k, label, sl, getattr(sl, "grid", None) is a.spatialGrid))
            if block_fp(b) != s.fp[lab(b)]:
                v("content-block-changed", "content of block %s (now in %s) differs from when it was loaded/charged" % (lab(b), label))
            mass = float(b.getMass()) * float(b.getSymmetryFactor())
            if abs(mass - s.mass[lab(b)]) > MASS_RTOL * abs(s.mass[lab(b)]):
                v("content-mass", "block %s (now in %s): mass x symmetry factor %r, was %r" % (lab(b), label, mass, s.mass[lab(b)]))

    # 6. move bookkeeping --------------------------------------------------------------------
    for label in m.live():
        got = float(s.obj[label].p.numMoves)
        if got != float(m.moves[label]):
            v("numMoves", "%s: numMoves %s, the history placed it %d times" % (label, got, m.moves[label]))
            break
    return bad


# ---------------------------------------------------------------------------------------------
# canonical form


def canon(s, m):
    corep = [[idx, m.desc(l), [m.bdesc(b) for b in m.expected_blocks(l)]] for idx, l in sorted(m.loc.items())]
    pool = []
    for l in m.pool:
        sl = s.obj[l].spatialLocator
        pool.append([m.desc(l), [m.bdesc(b) for b in m.expected_blocks(l)], [int(sl.i), int(sl.j)] if hasattr(sl, "i") else None])
    purged = sorted([m.desc(l), [m.bdesc(b) for b in m.expected_blocks(l)], m.lastcell.get(l)] for l in m.purged)
    # objects still reachable under a name they no longer carry: real (hidden) state of the lookup
    # tables that a later purge can expose, so two states differing in it are not merged
    alias = sorted(
        [m.bdesc(s.blab[id(o)]) if id(o) in s.blab else "?" for n, o in s.core.blocksByName.items() if o.getName() != n]
        + [m.desc(s.lab[id(o)]) if id(o) in s.lab else "?" for n, o in s.core.assembliesByName.items() if o.getName() != n]
    )
    return json.dumps({"core": corep, "pool": pool, "purged": purged, "alias": alias}, sort_keys=True)


def full_obs(s, m):
    """Things the canonical form does not contain and the model does not predict, but which two
    histories reaching the same arrangement must agree on."""
    out = []
    for a in list(s.core) + (list(s.sfp) if s.sfp is not None else []):
        out.append([m.desc(s.lab.get(id(a), "?")), a.getLocation(), float(a.getSymmetryFactor()), [[m.bdesc(s.blab.get(id(b), "?.0")), s.fp.get(s.blab.get(id(b))) == block_fp(b), b.spatialGrid is not None] for b in a]])
    out.sort(key=lambda x: json.dumps(x))
    return _dig([out, int(s.core.numRings), len(s.core.childrenByLocator)])


# ---------------------------------------------------------------------------------------------
# explorer interface


def expand(item):
    init, hist, outs = item["init"], item["hist"], item.get("outs", [])
    case = {"init": init, "hist": hist, "outs": outs}
    s, m = build_state(init)
    viols, out = [], "ok"
    for k, op in enumerate(hist):
        op = list(op)
        out = apply_op(s, m, op, init, viols, case)
        if k < len(outs) and k < len(hist) - 1 and out != outs[k]:
            raise RuntimeError("prefix replay diverged at step %d of %s: %s, recorded %s" % (k, hist, out, outs[k]))
        if viols and k < len(hist) - 1:
            raise RuntimeError("violation inside a replayed prefix at step %d of %s: %s" % (k, hist, viols[0]["key"]))
    terminal = bool(viols)
    if not viols:
        for key, msg in check(s, m, init, hist):
            viols.append(mc.viol(K + key, "%s after %s: %s" % (_ini(init), hist, msg), case))
    # one violation per class and state is enough
    seen, uniq = set(), []
    for x in viols:
        if x["key"] not in seen:
            seen.add(x["key"])
            uniq.append(x)
    res = {"canon": canon(s, m), "full": None, "viols": uniq, "ops": [], "out": out, "terminal": terminal}
    if not terminal:
        # (no differential comparison for a state that already carries a violation)
        # bfs extends the state only if it has no violation or nothing but soft / known ones
        res["full"] = None if uniq else full_obs(s, m)
        res["ops"] = enabled_ops(m, init)
    return res


def evaluate(case):
    r = expand(case)
    vs = list(r["viols"])
    if case.get("other") is not None:  # a differential counterexample of explore.bfs: two histories
        r2 = expand({"init": case["init"], "hist": case["other"], "outs": []})
        if r["canon"] == r2["canon"] and r["full"] is not None and r2["full"] is not None and r["full"] != r2["full"]:
            vs.append(mc.viol(K + "differential", "%s and %s reach the same canonical state but differ in the full observation" % (case["hist"], case["other"]), case))
    return vs


# ---------------------------------------------------------------------------------------------
# bounds


def inits(ctx):
    """[(init, depth)] - every bound of the search lives here."""
    seed = ctx.seed
    out = []

    def add(core, track, stat, depth, pool="filled", **alpha):
        al = {"fresh": [0, 1], "triples": "focus", "addocc": 2, "addout": 1, "pool": 2}
        al.update(alpha)
        out.append(({"core": core, "track": track, "stat": stat, "sfp": pool != "default", "poolfill": pool == "filled", "seed": seed, "alpha": al}, depth))

    FULL = {"addforms": [0, 1], "replace": 1, "readd": 1, "swapself": 1}

    def pair(name, track, depth, **alpha):
        flags, oc = PAIR_FAMILY[name]
        add("third3", track, "L:" + name, depth, **alpha)
        out[-1][0].update(flags=flags, stacks={"IC": IC_STACK, "OC": oc})

    LEAN = {"fresh": [0], "triples": "rot", "addocc": 0, "addout": 0}
    if ctx.quick:
        # breadth: every pair of locations of the 7-assembly cores, every operation once
        for track in (True, False):
            for stat in ("none", "all"):
                add("third7", track, stat, 1, **FULL)
            add("full7", track, "both", 1, **FULL)
            add("third7", track, "none", 1, pool="default", triples="none", addocc=0)
        add("third7", True, "mixed", 1)
        # stationary layout pairs: counts equal/different x each position aligned/misaligned
        for name in sorted(PAIR_FAMILY):
            pair(name, True, 1, triples="rot", addocc=0, addout=0, swapself=1)
        # every stationary position class x tracking to depth 2 on the mini core with a filled pool
        for track in (True, False):
            for stat in ("none", "gp"):
                add("third3", track, stat, 2, fresh=[0], triples="rot", addocc=1, **FULL)
            for stat in ("top", "all") if not track else ("top", "both", "mid", "all"):
                add("third3", track, stat, 2, **LEAN)
            add("third3", track, "mixed", 2, triples="rot", addocc=0, addout=0)
            # the other pool kinds
            add("third3", track, "gp", 2, pool="empty", fresh=[0], triples="rot", addocc=1, **FULL)
            add("third3", track, "none", 2, pool="default", fresh=[0], triples="rot", addocc=1, **FULL)
    else:
        for track in (True, False):
            add("third7", track, "none", 2, **FULL)
            add("third7", track, "all", 2)
            add("full7", track, "gp", 2)
        for track in (True, False):
            add("third7", track, "mixed", 2)
            add("third7", track, "none", 1, pool="default", triples="all")
            add("third7", track, "both", 1, pool="empty", triples="all", **FULL)
            add("full7", track, "mid", 1, pool="empty", triples="all", **FULL)
        for track in (True, False):
            for stat in ("none", "gp", "top", "both", "mid", "all", "mixed"):
                add("third3", track, stat, 3 if stat in ("none", "gp", "all", "mixed") else 2, triples="rot", addocc=1, **(FULL if stat in ("none", "gp") else {}))
                add("third3", track, stat, 2, pool="empty", triples="rot", addocc=1, **FULL)
                add("third3", track, stat, 2, pool="default", triples="rot", addocc=1, **FULL)
            for stat in ("none", "gp", "mixed"):
                add("full3", track, stat, 3, pool="empty", triples="rot", addocc=1, **FULL)
                add("third4", track, stat, 2, addocc=1)
        for name in sorted(PAIR_FAMILY):
            for track in (True, False):
                pair(name, track, 2, triples="rot", addocc=0, addout=0, swapself=1)
        for track, stat, pool in ((True, "both", "empty"),):
            add("third3", track, stat, 4, pool=pool, fresh=[0], triples="rot", addocc=0, addout=0, pool_=1)
    for init, _d in out:  # 'pool' is the pool kind in add(); the alphabet bound is spelled pool_ there
        if "pool_" in init["alpha"]:
            init["alpha"]["pool"] = init["alpha"].pop("pool_")
    return out


def config_of(init):
    return "track=%s/stationary=%s/pool=%s" % ("on" if init["track"] else "off", init["stat"], ("filled" if init.get("poolfill") else "empty") if init.get("sfp", True) else "default")


# a state whose only violation is this one (present from the initial state on) is still extended
SOFT_KEYS = [K + "lookup-misses-blueprint-pool-assembly"]
OPKINDS = ["swap", "casc", "dfresh", "dpool", "remove", "add", "replace", "readd", "addocc", "addout", "readdocc", "swapself"]


def insert_positions(plan):
    """Per stationary kind of the plan: the list positions at which the stationary exchange
    re-inserts a block (the other stationary block has just been removed, so the list has n-1
    entries): start / middle / end."""
    out = {}
    for init, _d in plan:
        spec = make_spec(init)
        m = Model(init, spec)
        pos = out.setdefault(init["stat"], set())
        for dname, blocks in m.blocks.items():
            for k in m.layout(dname):
                pos.add("start" if k == 0 else ("end" if k == len(blocks) - 1 else "middle"))
    return {k: sorted(v) for k, v in out.items()}


def alphabet_matrix(plan):
    """Which operation kinds are enabled (and with which expected outcome) as the first or second
    operation of a history, per (tracking x stationary x pool) configuration. Computed with the
    reference model alone over the same plan (an execution whose real outcome differs from the
    model's is a violation, so this is what the search executes while it is green)."""
    mat = {}
    for init, depth in plan:
        spec = make_spec(init)
        row = mat.setdefault(config_of(init), {})
        seen = set()
        frontier = [[]]
        for d in range(min(depth, 2)):
            nxt = []
            for hist in frontier:
                m = Model(init, spec)
                ok = True
                for op in hist:
                    ok = ok and _model_step(m, op) == "ok"
                key = json.dumps([sorted(m.loc.items()), m.pool, sorted(m.purged), sorted((str(k), v) for k, v in m.stat.items())])
                if key in seen:
                    continue
                seen.add(key)
                for op in enabled_ops(m, init):
                    exp = m.expect(op)
                    cell = row.setdefault(op[0], {})
                    cell[exp] = cell.get(exp, 0) + 1
                    nxt.append(hist + [op])
            frontier = nxt
    missing = {cfg: [k for k in OPKINDS if not row.get(k, {}).get("ok") and not (k in ("addocc", "addout", "readdocc", "swapself") and row.get(k))] for cfg, row in mat.items()}
    return mat, {cfg: ks for cfg, ks in missing.items() if ks}


def _model_step(m, op):
    exp = m.expect(op)
    if op[0] in ("swapself", "readdocc"):
        return exp
    inc = None
    if op[0] in ("dfresh", "add", "addocc", "addout", "replace"):
        inc = m.fresh_label(op[1])
    elif op[0] == "dpool":
        inc = op[1]
    if exp == "ok":
        m.commit(op, inc)
    elif inc is not None and op[0] != "dpool":
        m.forget(inc)
    return exp


def run(ctx):
    total = {}
    plan = inits(ctx)
    mat, notenabled = alphabet_matrix(plan)
    by_depth = {}
    for init, depth in plan:
        by_depth.setdefault(depth, []).append(init)
    for depth in sorted(by_depth):
        st = explore.bfs(ctx, MOD, by_depth[depth], depth=depth, soft_keys=SOFT_KEYS)
        explore.merge_stats(total, st)
        for o, n in st["outcomes"].items():
            ctx.count("outcome:" + o, n)
        for o, n in st["ops"].items():
            ctx.count("op:" + o, n)
    explore.finish(
        ctx,
        total,
        extra={
            "plan": [{"init": {k: v for k, v in i.items() if k != "seed"}, "depth": d} for i, d in plan],
            "depth_max": max(d for _i, d in plan),
            "alphabet_enabled_within_depth2": mat,
            "stationary_insert_positions": insert_positions(plan),
            "alphabet_not_enabled_within_depth2": notenabled,
            # every history up to the stated depth was executed (bounded-exhaustive), but the reachable
            # state space is not closed at that depth: new canonical states still appear at the last level
            "exhaustive": False,
            "exhaustive_within_bounds": True,
            "closure": False,
        },
    )
    ctx.assumptions += [
        "bounded: histories up to the depth listed per initial state in coverage.plan; location universe = the initial cells of the generated core (7) or 3-4 cells plus one empty location",
        "alphabet bounds per initial state (coverage.plan[].init.alpha): fresh designs, cascade triples ('focus' = ordered triples of the first 4 locations, 'rot' = one per rotation class of the first 3, 'all'), at most `pool` pooled assemblies re-inserted, add-to-occupied tried on the first `addocc` locations",
        "a cascade whose first swap is legal and a later one refused (differing stationary layouts) is not in the alphabet",
        "canonical form: location->assembly, pool (with pool positions), purged, block composition, objects reachable under a former name; fresh assemblies of one design are interchangeable; move counters are not part of the canonical form (they only grow and are never read by the operations) but are compared with the model along every history",
        "block content fingerprint is bit-exact; block mass x symmetry factor within 1e-10",
        "one bare Operator per settings object and worker is reused as scaffolding (its reactor reference is replaced for every execution); reactor, core, pool, assemblies and FuelHandler are rebuilt for every history",
    ]
