"""C17 helpers: value codec, canonical form, the boring reference interpreter of a setting's schema
and the schema-derived value alphabets.

Nothing here *executes* voluptuous: the objects of a schema tree (``Coerce``, ``Range``, ``All``,
``Any``, ``In``, ``Length``, list/dict literals, type literals) are only read as data, and their meaning
is restated in a few lines of plain Python each.  A validator the interpreter does not know raises
``Unmodelled``; the check then falls back to the weaker oracle "accepted or refused, but
consistently" and counts the setting as unmodelled.
"""
import json
import math
import re

# ---------------------------------------------------------------------------------------------
# JSON codec for values (cases must be pure JSON; inf/nan are not)


def enc(v):
    if isinstance(v, float) and not isinstance(v, bool):
        if math.isnan(v):
            return {"$f": "nan"}
        if math.isinf(v):
            return {"$f": "inf" if v > 0 else "-inf"}
        return v
    if isinstance(v, (list, tuple)):
        return [enc(x) for x in v]
    if isinstance(v, dict):
        return {str(k): enc(x) for k, x in v.items()}
    return v


def dec(v):
    if isinstance(v, dict):
        if set(v) == {"$f"}:
            return float(v["$f"])
        return {k: dec(x) for k, x in v.items()}
    if isinstance(v, list):
        return [dec(x) for x in v]
    return v


def jkey(v):
    return json.dumps(enc(v), sort_keys=True)


# ---------------------------------------------------------------------------------------------
# canonical form of a setting value: typed, order of dict keys irrelevant, ruamel/armi container
# subclasses reduced to their plain meaning, objects with attributes reduced to their attributes


def canon(v):
    if v is None:
        return ["n"]
    if isinstance(v, bool):
        return ["b", bool(v)]
    if isinstance(v, int):
        return ["i", str(int(v))]
    if isinstance(v, float):
        f = float(v)
        if math.isnan(f):
            return ["f", "nan"]
        if f == 0.0:
            return ["f", "0.0"]  # the sign of zero is not observable through ==
        return ["f", repr(f)]
    if isinstance(v, str):
        return ["s", str(v)]
    if isinstance(v, (list, tuple)):
        return ["l", [canon(x) for x in v]]
    if isinstance(v, dict):
        items = [[canon(k), canon(x)] for k, x in v.items()]
        items.sort(key=lambda kv: json.dumps(kv[0]))
        return ["d", items]
    try:
        import enum

        if isinstance(v, enum.Enum):
            return ["e", type(v).__name__, v.name]
    except Exception:
        pass
    d = getattr(v, "__dict__", None)
    if isinstance(d, dict):
        return ["o", type(v).__name__, canon(d)]
    return ["r", repr(v)]


def canon_setting(name, v):
    """Canonical value of setting ``name``; the writer's bookkeeping entry versions['armi'] is excluded."""
    if name == "versions" and isinstance(v, dict):
        v = {k: x for k, x in v.items() if k != "armi"}
    return canon(v)


def loose(c):
    """Type-insensitive projection of a canonical value (1 == 1.0 == True as in Python)."""
    t = c[0]
    if t in ("b", "i", "f"):
        if t == "f" and c[1] in ("nan", "inf", "-inf"):
            return ["num", c[1]]
        x = float(c[1]) if t != "b" else float(bool(c[1]))
        if t == "i":
            return ["num", str(int(c[1]))]
        if x == int(x) and abs(x) < 1e300:
            return ["num", str(int(x))]
        return ["num", repr(x)]
    if t == "l":
        return ["l", [loose(x) for x in c[1]]]
    if t == "d":
        return ["d", [[loose(k), loose(x)] for k, x in c[1]]]
    if t == "o":
        return ["o", c[1], loose(c[2])]
    return c


# ---------------------------------------------------------------------------------------------
# reference interpreter


class Refuse(Exception):
    pass


class Unmodelled(Exception):
    pass


def _is_monotonic_increasing(v):
    for a, b in zip(v, v[1:]):
        if not a < b:
            raise Refuse("not increasing")
    return v


def _cycles_exclusive(cycle):
    n = sum(["cumulative days" in cycle, "step days" in cycle, ("cycle length" in cycle or "burn steps" in cycle)])
    if n != 1:
        raise Refuse("exactly one way of giving the cycle's time steps")
    return cycle


def _ref_xs(v):
    """crossSectionControl: {1-2 char id: {optional typed fields}}; empty entries and None fields are
    dropped; each entry needs a geometry unless it points to cross-section files (and no flux file)."""
    from armi.physics.neutronics import crossSectionSettings as m

    if not isinstance(v, dict):
        raise Refuse("not a dict")
    ser = {}
    for k, o in v.items():
        if not o:
            continue
        if not isinstance(o, dict):
            raise Refuse("entry is not a dict")
        ser[str(k)] = {c: x for c, x in o.items() if c != "xsID" and x is not None}
    out = ref(m._XS_SCHEMA, ser)
    res = {}
    for xsid, p in out.items():
        if not p:
            continue
        if (p.get("xsFileLocation") is None or p.get("fluxFileLocation") is not None) and p.get("geometry") is None:
            raise Refuse("neither geometry nor file location")
        res[xsid] = p
    return PartialXS(res)


class PartialXS:
    """Reference result for crossSectionControl: the supplied (coerced) fields per id; fields not
    supplied take constructor/None defaults which the reference does not restate."""

    def __init__(self, d):
        self.d = d


def _ref_tc(v):
    from armi.settings.fwSettings import tightCouplingSettings as m

    if not isinstance(v, dict):
        raise Refuse("not a dict")
    ser = {str(k): o for k, o in v.items() if o}
    return dict(ref(m._SCHEMA, ser))


_FUNCS = {
    "_isMonotonicIncreasing": _is_monotonic_increasing,
    "_mutuallyExclusiveCyclesInputs": _cycles_exclusive,
    "xsSettingsValidator": _ref_xs,
    "tightCouplingSettingsValidator": _ref_tc,
}


def _key_of(k):
    """schema dict key -> (inner key schema, required?)"""
    import voluptuous as vol

    if isinstance(k, vol.Required):
        return k.schema, True
    if isinstance(k, vol.Marker):
        return k.schema, False
    return k, None  # plain key: required only when the enclosing Schema says required=True


def ref(node, v, required=False, extra_ok=False):
    """Meaning of schema ``node`` applied to ``v``: the coerced value, or Refuse / Unmodelled."""
    import voluptuous as vol

    if isinstance(node, vol.Schema):
        return ref(node.schema, v, required=bool(node.required), extra_ok=(node.extra != vol.PREVENT_EXTRA))
    if isinstance(node, vol.Coerce):
        try:
            return node.type(v)
        except Exception:
            raise Refuse("cannot coerce to %s" % node.type.__name__)
    if isinstance(node, vol.Range):
        try:
            if node.min is not None and not (v >= node.min if node.min_included else v > node.min):
                raise Refuse("below range")
            if node.max is not None and not (v <= node.max if node.max_included else v < node.max):
                raise Refuse("above range")
        except TypeError:
            raise Refuse("unordered")
        return v
    if isinstance(node, vol.All):
        for sub in node.validators:
            v = ref(sub, v)
        return v
    if isinstance(node, vol.Any):
        for sub in node.validators:
            try:
                return ref(sub, v)
            except Refuse:
                continue
        raise Refuse("no alternative admits the value")
    if isinstance(node, vol.In):
        try:
            ok = v in node.container
        except TypeError:
            ok = False
        if not ok:
            raise Refuse("not an option")
        return v
    if isinstance(node, vol.Length):
        try:
            n = len(v)
        except TypeError:
            raise Refuse("no length")
        if (node.min is not None and n < node.min) or (node.max is not None and n > node.max):
            raise Refuse("length")
        return v
    if node is None:
        if v is None:
            return None
        raise Refuse("not None")
    if isinstance(node, type):
        if isinstance(v, node):
            return v
        raise Refuse("not a %s" % node.__name__)
    if isinstance(node, list):
        if not isinstance(v, list):
            raise Refuse("not a list")
        if not node:
            if v:
                raise Refuse("empty list schema")
            return []
        out = []
        for e in v:
            for sub in node:
                try:
                    out.append(ref(sub, e))
                    break
                except Refuse:
                    continue
            else:
                raise Refuse("list element")
        return out
    if isinstance(node, dict):
        if not isinstance(v, dict):
            raise Refuse("not a dict")
        keys = [(_key_of(k) + (sub,)) for k, sub in node.items()]
        # literal keys are tried before type/validator keys
        keys.sort(key=lambda t: 0 if isinstance(t[0], (str, int, float)) and not isinstance(t[0], type) else 1)
        out = {}
        for dk, dv in v.items():
            matched = False
            done = False
            for ks, _req, sub in keys:
                try:
                    nk = ref(ks, dk)
                except Refuse:
                    continue
                matched = True
                try:
                    out[nk] = ref(sub, dv)
                    done = True
                    break
                except Refuse:
                    continue
            if not matched:
                if extra_ok:
                    out[dk] = dv
                    continue
                raise Refuse("extra key %r" % (dk,))
            if not done:
                raise Refuse("value of key %r" % (dk,))
        for ks, req, _sub in keys:
            literal = isinstance(ks, (str, int, float)) and not isinstance(ks, type)
            if literal and (req is True or (req is None and required)) and ks not in out:
                raise Refuse("required key %r" % (ks,))
        return out
    if isinstance(node, (str, int, float)):
        if type(v) is type(node) and v == node:
            return v
        raise Refuse("literal")
    if callable(node):
        f = _FUNCS.get(getattr(node, "__name__", ""))
        if f is None:
            raise Unmodelled(getattr(node, "__name__", repr(node)))
        return f(v)
    raise Unmodelled(repr(node))


def setting_node(s):
    """The schema a Setting must apply, derived from its definition (custom schema, else enforced
    options, else the type of the default) -- independently of Setting._setSchema."""
    import voluptuous as vol

    cust = getattr(s, "_customSchema", None)
    if cust is not None:
        return cust
    if s.options and s.enforcedOptions:
        return vol.In(list(s.options))
    d = s.default
    if isinstance(d, list) and d:
        return [vol.Coerce(type(d[0]))]
    return vol.Coerce(type(d))


def ref_setting(s, v):
    return ref(setting_node(s), v)


# ---------------------------------------------------------------------------------------------
# alphabets

LONG = "lorem ipsum dolor sit amet " * 6 + "end"
STRS = [
    "a b", "", "yes", "1e5", "null", "a: #b", "\u00e9", "~", "True", "false", "0123", "1_000", "0x1F", "12:30:00",
    "2024-01-01", "2001-12-14t21:59:43.10-05:00", "- x", "[x]", "{a: b}", "*a", "&a", "!t", "%d", "@x", "`x", "'q'",
    '"dq"', " lead", "trail ", "a\nb", "a\tb", "line1\n\nline3\n", "\n", "#c", "a #c", ":", "-", "?", "|", ">", "=", "<<",
    ".inf", ".nan", "+1", "1.", ".5", "0o17", "on", "off", "n", "y", "NULL", "Null", "\u2028", "\x85", "\x07",
    "\U0001F600", LONG, "a  b  double", "C:\\path\\file", "/abs/path/x.yaml", "trailing:", "key: value", "a,b", "\\",
    "None", "[]", "{}", "1", "1.5", "-", "--- x", "...", "a'b\"c", "\u00e9\u00e8 \u4e2d\u6587", "tab\there", " ", "  ",
]
STRS_SHORT = ["a b", "", "yes", "1e5", "null", "a: #b", "\u00e9", "- x"]
INTS = [2, 0, 1, -1, 7, 2 ** 31, -(2 ** 31) - 1, 2 ** 63, 10 ** 30]
FLOATS = [2.5, 0.0, -0.0, 1.0, 1e-30, 1.5e20, -2.5, 0.30000000000000004, 1e16, 1e22, 5e-324, 1.7976931348623157e308,
          123456789.12345679, 100.0, 1.0 / 3.0, float("inf"), float("-inf"), float("nan")]
WRONG = [None, "abc", "", [1], {"a": 1}]
LISTS = [
    ["a"], [], ["a", "b"], [1], [1, 2, 3], [1.5], [True, False], [None], ["", "1", "true", "null"],
    [1, 2.5, "x", True, None], [[1, 2], [3]], [[]], [{"a": 1}], [{"a": [1, {"b": None}]}],
    ["a b", "\u00e9", "a: b", "- x", "#c"], list(range(30)), ["w%02d long entry number" % i for i in range(12)],
    [1e16, 1e-30, float("inf")], ["1e5", 1e5, 100000],
]
DICTS = [
    {"a": "b"}, {}, {"armi.reactor": "debug"}, {"armi": "0.0.0", "other": "1.2"}, {"a": 1}, {"a": None},
    {"a": [1, 2], "b": {"c": 2.5}}, {"1": "x"}, {"": "x"}, {"a b": "c: d"}, {"yes": "no"}, {"\u00e9": "\u00e9"},
    {"a": "", "b": "null", "c": "1e5"}, {"x": "10", "y": "info"},
]


def _dedupe(vals):
    seen, out = set(), []
    for v in vals:
        k = jkey(v) + type(v).__name__
        if k not in seen:
            seen.add(k)
            out.append(v)
    return out


def _by_type(t):
    if t is bool:
        return [True, False, 0, 1, 2, 0.0, "False", "true", "", None, [], [0], {}]
    if t is int:
        return INTS + [True, False, 2.7, -0.5, "7", " 8 ", "1e5", float("inf"), float("nan")] + WRONG
    if t is float:
        return FLOATS + [3, 2 ** 70, True, "1e5", " 2.5"] + WRONG
    if t is str:
        return STRS + [5, 2.5, True, None, ["a"], {"a": 1}]
    if t is list:
        return LISTS + ["abc", "", {"a": 1}, 5, 2.5, True, None]
    if t is dict:
        return DICTS + [[["k", "v"]], [], "ab", "", 5, None, True, [1]]
    if t is type(None):
        return [None, 0, "", "a", [], 1.5]
    return [None, 0, 1, "a", 1.5, [], {}]


def _ok(node, v):
    try:
        ref(node, v)
        return True
    except Refuse:
        return False
    except Unmodelled:
        return None


def _valid_of(node, vals):
    return [v for v in vals if _ok(node, v)]


def alpha(node, small=False):
    """Candidate values (valid and near-miss invalid) for schema ``node``; most typical first."""
    import voluptuous as vol

    if isinstance(node, vol.Schema):
        return alpha(node.schema, small)
    if isinstance(node, vol.Coerce):
        if small and node.type is str:
            return STRS_SHORT + [5, None]
        return _by_type(node.type)
    if isinstance(node, vol.Range):
        out = []
        for b in (node.min, node.max):
            if b is None:
                continue
            if isinstance(b, int) and float(b) == b:
                out += [b, b - 1, b + 1, float(b)]
            d = 1e-9 * (abs(b) + 1.0)
            out += [float(b) - d, float(b) + d, float(b) - 0.5, float(b) + 0.5]
        return out
    if isinstance(node, (vol.All, vol.Any)):
        out = []
        # the hand-picked candidates of function validators first (they hold the near-miss invalid shapes)
        subs = [x for x in node.validators if callable(x) and getattr(x, "__name__", "") in _FUNCS] + [
            x for x in node.validators if not (callable(x) and getattr(x, "__name__", "") in _FUNCS)
        ]
        for sub in subs:
            out += alpha(sub, small)
        return out
    if isinstance(node, vol.In):
        opts = list(node.container)
        try:
            opts.sort()
        except TypeError:
            pass
        out = list(opts) + ["notAnOption", 5, None, ""]
        for o in opts:
            if isinstance(o, str) and o:
                out += [o.upper() if o.upper() != o else o.lower(), o + " "]
                break
        return out
    if isinstance(node, vol.Length):
        out = []
        for n in (node.min, node.max):
            if n is not None:
                out += ["A" * max(n - 1, 0), "A" * n, "A" * (n + 1)]
        return out
    if node is None:
        return [None]
    if isinstance(node, type):
        return alpha(vol.Coerce(node), small)
    if isinstance(node, list):
        elems = []
        for sub in node:
            elems += alpha(sub, True)
        elems = _dedupe(elems)
        good = [e for e in elems if _ok(node, [e])]
        bad = [e for e in elems if _ok(node, [e]) is False]
        out = [[]]
        out += [[e] for e in (good[:6] if small else good[:40])]
        if len(good) >= 2:
            out += [[good[0], good[1]], [good[1], good[0]], good[:3] * 4]
        if len(good) >= 4:
            out += [[good[2], good[3]], good[:8]]
        out += [[e] for e in bad[:3 if small else 12]]
        if good and len(bad) > 1:
            out += [[good[0], bad[1]], [bad[0], good[0]]]
        if good and bad:
            out += [[good[0], bad[0]]]
        out += ["abc", 5, None, {"a": 1}]
        out += good[:2]  # the bare element instead of a one-element list
        return out
    if isinstance(node, dict):
        entries = []
        for k, sub in node.items():
            ks, _req = _key_of(k)
            kvals = [ks] if isinstance(ks, str) else [x for x in alpha(ks, True) if isinstance(x, str)]
            entries.append((ks, kvals, sub))
        out = [{}]
        firsts = []
        for ks, kvals, sub in entries:
            svals = _dedupe(alpha(sub, True))
            goodk = [x for x in kvals if _ok(ks, x)] if not isinstance(ks, str) else kvals
            badk = [x for x in kvals if not isinstance(ks, str) and _ok(ks, x) is False]
            goodv = [x for x in svals if _ok(sub, x)]
            badv = [x for x in svals if _ok(sub, x) is False]
            if goodk and goodv:
                firsts.append((goodk[0], goodv[0]))
            for kk in goodk[:2]:
                for x in goodv[: 4 if small else 10]:
                    out.append({kk: x})
                for x in badv[: 1 if small else 3]:
                    out.append({kk: x})
            for kk in badk[:2]:
                if goodv:
                    out.append({kk: goodv[0]})
        for i in range(len(firsts)):
            for j in range(i + 1, len(firsts)):
                if firsts[i][0] != firsts[j][0]:
                    out.append({firsts[i][0]: firsts[i][1], firsts[j][0]: firsts[j][1]})
        if len(firsts) > 2:
            out.append({k: x for k, x in firsts})
        out.append({"bogusKey": 1})
        if firsts:
            out.append({firsts[0][0]: firsts[0][1], "bogusKey": 1})
        out += ["abc", 5, None, [], [1]]
        return out
    if isinstance(node, (str, int, float)):
        return [node]
    if callable(node):
        name = getattr(node, "__name__", "")
        if name == "_isMonotonicIncreasing":
            return [[1, 2, 3], [3, 2, 1], [1, 1], [], [1], [1.5, 2], [0, 0.5, 10, 365.25]]
        if name == "_mutuallyExclusiveCyclesInputs":
            return [
                # near-miss invalid: two (or three) ways of giving the time history in one entry
                {"cumulative days": [1, 2], "burn steps": 2},
                {"step days": ["1", "2R"], "cycle length": 10.0},
                {"cumulative days": [1, 2], "cycle length": 10.0},
                {"step days": ["1", "2R"], "burn steps": 2},
                {"cumulative days": [1], "step days": ["1"]},
                {"cumulative days": [1, 2], "step days": ["1"], "cycle length": 10.0, "burn steps": 2},
                {"name": "mixed", "cumulative days": [1, 2], "burn steps": 2, "power fractions": ["1.0", "0.5"]},
                {"name": "x"},
                # valid
                {"cumulative days": [1, 2]},
                {"step days": ["1", "2R"]},
                {"cycle length": 10, "burn steps": 2},
                {"cycle length": 10.5},
                {"burn steps": 2},
                {"name": "c", "cumulative days": [5, 10.5], "power fractions": ["1.0", "0.5"], "availability factor": 0.9},
                {"name": "a: b", "step days": [1, 2.5, "3R"], "power fractions": [1, 0.5, "3R"], "availability factor": 1},
            ]
        if name == "xsSettingsValidator":
            return _alpha_xs()
        if name == "tightCouplingSettingsValidator":
            from armi.settings.fwSettings import tightCouplingSettings as m

            base = alpha(m._SCHEMA)
            return [
                {"globalFlux": {"parameter": "keff", "convergence": 1e-5}},
                {"globalFlux": {"parameter": "keff", "convergence": 1e-5}, "thermalHydraulics": {"parameter": "peakFuelTemperature", "convergence": "0.01"}},
                {"globalFlux": {"parameter": "power", "convergence": 1}},
                {"globalFlux": {"parameter": "keff"}},
                {"globalFlux": {"convergence": 1e-5}},
                {"globalFlux": {"parameter": "keff", "convergence": "tight"}},
                {"globalFlux": {"parameter": "keff", "convergence": 1e-5, "extra": 1}},
                {"globalFlux": {}},
                {"globalFlux": None},
            ] + base
        return []
    return []


def _alpha_xs():
    from armi.physics.neutronics import crossSectionSettings as m

    single = m._SINGLE_XS_SCHEMA.schema
    geoms = sorted(m.XS_GEOM_TYPES)
    out = [{"AA": {"geometry": g}} for g in geoms]
    out += [
        {},
        {"AA": {"xsFileLocation": ["a.isotxs"]}},
        {"AA": {"xsFileLocation": ["a.isotxs", "dir/b c.isotxs"], "blockRepresentation": "Median"}},
        {"AA": {"geometry": "0D", "fluxFileLocation": "rtflux"}},
        {"AA": {"xsFileLocation": ["a"], "fluxFileLocation": "rtflux"}},
        {"AA": {"geometry": "0D"}, "BA": {"geometry": "1D cylinder", "mergeIntoClad": ["gap", "liner"], "numInternalRings": 2}},
        {"A": {"geometry": "0D"}},
        {"AA": {"geometry": "0D"}, "AB": {"geometry": "2D hex", "externalDriver": False, "driverID": "AA"}},
        {"AA": {}},
        {"AA": None},
        {"AA": {"geometry": None, "xsFileLocation": ["x"]}},
        {"AA": {"geometry": "0D", "xsID": "ZZ"}},
        {"AA": {"criticalBuckling": True}},
        {"AAA": {"geometry": "0D"}},
        {"": {"geometry": "0D"}},
        {"AA": {"geometry": "3D"}},
        {"AA": {"geometry": "0D", "bogus": 1}},
        {"AA": "0D"},
        {"AA": ["geometry", "0D"]},
        "AA",
        ["AA"],
        None,
        5,
    ]
    for k, sub in single.items():
        ks, _ = _key_of(k)
        vals = _dedupe(alpha(sub, True))
        good = [x for x in vals if _ok(sub, x)]
        bad = [x for x in vals if _ok(sub, x) is False]
        for x in good[:6] + bad[:2]:
            if ks == "geometry":
                continue
            out.append({"AA": {"geometry": "0D", ks: x}})
    # every field at once, per geometry
    full = {}
    for k, sub in single.items():
        ks, _ = _key_of(k)
        good = [x for x in _dedupe(alpha(sub, True)) if _ok(sub, x)]
        if good and ks not in ("geometry", "xsFileLocation"):
            full[ks] = good[0]
    for g in geoms:
        d = dict(full)
        d["geometry"] = g
        out.append({"AA": d, "ZB": dict(d)})
    return out


def alphabet(s):
    """Value alphabet of one Setting: its default, every option, the schema-derived candidates."""
    vals = [s.default]
    if s.options:
        vals += list(s.options)
        vals += ["notAnOption"]
    vals += alpha(setting_node(s))
    out = []
    for v in _dedupe(vals):
        try:
            json.dumps(enc(v))
        except TypeError:
            continue  # not expressible as a JSON case (e.g. an XSSettings default object) -> the default is still case []
        out.append(v)
    return out


def fix_surrogates(text):
    """json.dumps(ensure_ascii=True) writes astral characters as UTF-16 pairs; YAML wants \\UXXXXXXXX."""

    def rep(m):
        hi, lo = int(m.group(1), 16), int(m.group(2), 16)
        return "\\U%08X" % (0x10000 + ((hi - 0xD800) << 10) + (lo - 0xDC00))

    return re.sub(r"\\u(d[89ab][0-9a-f]{2})\\u(d[c-f][0-9a-f]{2})", rep, text, flags=re.I)


def flow_doc(entries):
    """A settings document in YAML flow style (JSON is a subset of YAML 1.2): written without ruamel
    and without armi's writer."""
    return fix_surrogates(json.dumps({"settings": entries}, ensure_ascii=True)) + "\n"


def json_able(v):
    """True when ``v`` can be written by flow_doc (no inf/nan)."""
    if isinstance(v, float):
        return not (math.isnan(v) or math.isinf(v))
    if isinstance(v, list):
        return all(json_able(x) for x in v)
    if isinstance(v, dict):
        return all(json_able(x) for x in v.values())
    return True
