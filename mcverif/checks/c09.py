"""C09 - CCCC nuclear-data files read back exactly what was written, in every format.

Bounded-exhaustive exploration of the real readers/writers (DESIGN 4 / C09):

* record level - every sequence of <= 3 fields over the field-type alphabet (int, long, float,
  double, bool, implicitly-typed map, string(1|8), list of int|float|double|string x n in {0,1,3},
  float/double/int matrix (2,), (2,3)) x 3 value variants (typical, type maximum, type minimum)
  through BinaryRecordWriter/Reader and AsciiRecordWriter/Reader on in-memory streams; the
  framing is parsed by an independent ``struct`` reader (c09_wire): leading count == trailing
  count == payload length == sum of the field widths, payload == independently packed values;
* format level - for each format a generator enumerates well-formed containers over its
  header-flag lattice with tiny dimensions; every container is written (binary), the file is
  compared record by record with an independent reference writer, read back, compared with what
  was written (reals to single precision), re-written (byte identical); then the same through the
  ASCII pair (exact), and the ASCII-read container re-written in binary must give the same bytes;
* fixture level - write(read(file)) == file byte for byte for every CCCC fixture in the repo
  (ASCII newline-normalised), plus binary -> ASCII -> binary;
* word level (c09_xs) - in small files derived from the fixtures, every real-valued word is
  perturbed in turn: the perturbed file must survive read -> write unchanged.

A *case* is pure JSON: {"kind": "rec"|"recbatch"|"fmt"|"fixture"|..., ...}.
"""
import io
import itertools
import os
import shutil
import struct
import traceback

from mcverif import core, env
from mcverif.checks import c09_formats as F
from mcverif.checks import c09_wire as W
from mcverif.checks import c09_xs as X

PROPERTY = "C09"
LEVEL = "exploration"
MOD = "mcverif.checks.c09"

MAXLEN = 3  # fields per record

# ---------------------------------------------------------------------------------------------
# record level

INT_V = [7, 2**31 - 1, -(2**31)]
LONG_V = [7, 2**63 - 1, -(2**63)]
FLOAT_V = [1.1, 3.4028234663852886e38, -1.1754943508222875e-38]  # typical (inexact in binary32), max, -min normal
DOUBLE_V = [2.2, 1.7976931348623157e308, -2.2250738585072014e-308]
STR1_V = ["A", "z", ""]
STR8_V = ["AB  CD", "ABCDEFGH", " x"]

FIELD_TYPES = (
    ["int", "long", "float", "double", "bool", "imap", "str1", "str8"]
    + ["list:%s:%d" % (t, n) for t in ("int", "float", "double", "string") for n in (0, 1, 3)]
    + ["%s:%s" % (m, sh) for m in ("matrix", "dmatrix", "imatrix") for sh in ("2", "2x3")]
)
ASCII_UNSUPPORTED = {"long"}  # AsciiRecordWriter has no rwLong at all: nothing to compare


def _variant(vals, v, k, rot):
    """value for the k-th scalar of variant v (0 typical: distinct values; 1/2 extremes)."""
    if v == 0:
        base = vals[0]
        if isinstance(base, int):
            return base + k + rot
        if isinstance(base, float):
            return base + 0.1 * (k + rot)
        return base
    return vals[v]


def field_plan(ftype, v, rot=0):
    """-> (call, flat) where call = (methodname, args...) to drive armi (writer: value args; the
    reader is given None in place of the value) and flat = independent expectation: list of
    (code, value[, length]) in file order, code in i,q,f,d,s."""
    if ftype == "int":
        x = _variant(INT_V, v, 0, rot)
        return ("rwInt", x), [("i", x)]
    if ftype == "long":
        x = _variant(LONG_V, v, 0, rot)
        return ("rwLong", x), [("q", x)]
    if ftype == "float":
        x = _variant(FLOAT_V, v, 0, rot)
        return ("rwFloat", x), [("f", x)]
    if ftype == "double":
        x = _variant(DOUBLE_V, v, 0, rot)
        return ("rwDouble", x), [("d", x)]
    if ftype == "bool":
        x = [True, False, True][v]
        return ("rwBool", x), [("i", int(x))]
    if ftype == "imap":
        keys = ["NX", "EFFK", "ITER", "power"]
        vals = {"NX": _variant(INT_V, v, 0, rot), "EFFK": _variant(FLOAT_V, v, 0, rot), "ITER": _variant(INT_V, v, 1, rot), "power": _variant(FLOAT_V, v, 1, rot)}
        return ("rwImplicitlyTypedMap", keys, vals), [("i" if k[0].upper() in "IJKLMN" else "f", vals[k]) for k in keys]
    if ftype == "str1":
        return ("rwString", STR1_V[v], 1), [("s", STR1_V[v], 1)]
    if ftype == "str8":
        return ("rwString", STR8_V[v], 8), [("s", STR8_V[v], 8)]
    if ftype.startswith("list:"):
        _, t, n = ftype.split(":")
        n = int(n)
        if t == "string":
            vals = [["L%d" % i, "ABCDEFGH", " y"][v] if v else "L%d" % i for i in range(n)]
            return ("rwList", vals, "string", n, 8), [("s", x, 8) for x in vals]
        src, code = {"int": (INT_V, "i"), "float": (FLOAT_V, "f"), "double": (DOUBLE_V, "d")}[t]
        vals = [_variant(src, v, i, rot) for i in range(n)]
        return ("rwList", vals, t, n), [(code, x) for x in vals]
    kind, sh = ftype.split(":")
    shape = tuple(int(x) for x in sh.split("x"))
    meth, src, code = {"matrix": ("rwMatrix", FLOAT_V, "f"), "dmatrix": ("rwDoubleMatrix", DOUBLE_V, "d"), "imatrix": ("rwIntMatrix", INT_V, "i")}[kind]
    # contents is indexed the FORTRAN way: contents[i, j] for shape (NJ, NI); file order: j outer, i inner
    if len(shape) == 1:
        vals = [_variant(src, v, i, rot) for i in range(shape[0])]
        return (meth, ("arr", vals, [shape[0]]), shape[0]), [(code, x) for x in vals]
    nj, ni = shape
    table = {(i, j): _variant(src, v, i + ni * j, rot) for i in range(ni) for j in range(nj)}
    nested = [[table[i, j] for j in range(nj)] for i in range(ni)]  # [i][j]
    return (meth, ("arr", nested, [ni, nj]), nj, ni), [(code, table[i, j]) for j in range(nj) for i in range(ni)]


def _args(call, reading):
    import numpy as np

    out = []
    for k, a in enumerate(call[1:]):
        if isinstance(a, tuple) and a and a[0] == "arr":
            out.append(None if reading else np.array(a[1], dtype=np.int64 if call[0] == "rwIntMatrix" else float))
        elif reading and k == 0 and call[0] != "rwImplicitlyTypedMap":
            out.append(None)
        elif call[0] == "rwImplicitlyTypedMap" and k == 1:
            out.append({} if reading else dict(a))
        else:
            out.append(a)
    if reading and call[0] == "rwImplicitlyTypedMap":
        out[1] = {key: None for key in call[1]}
    return out


def _flat_result(call, res):
    """flatten what a reader returned into file order (independent of how armi shaped it)."""
    import numpy as np

    if call[0] == "rwImplicitlyTypedMap":
        return [res[k] for k in call[1]]
    if call[0] in ("rwMatrix", "rwDoubleMatrix", "rwIntMatrix"):
        a = np.asarray(res)
        shape = call[2:]
        if len(shape) == 1:
            return a.tolist()
        nj, ni = shape
        if a.shape != (ni, nj):
            return ["<shape %s>" % (a.shape,)]
        return [a[i, j].item() for j in range(nj) for i in range(ni)]
    if call[0] == "rwList":
        return np.asarray(res).tolist()
    return [res]


def _expect_read(flat, enc):
    out = []
    for f in flat:
        if f[0] == "f" and enc == "bin":
            out.append(W.f32(f[1]))
        elif f[0] == "s":
            out.append(f[1].rstrip())
        else:
            out.append(f[1])
    return out


def _vals_equal(a, b):
    if len(a) != len(b):
        return False
    for x, y in zip(a, b):
        if isinstance(x, bool) or isinstance(y, bool):
            if bool(x) != bool(y):
                return False
        elif isinstance(x, str) or isinstance(y, str):
            if str(x) != str(y):
                return False
        elif x != y:
            return False
    return True


def _run_record(enc, types, v, rot=0):
    """Write one record of the given field types with armi, check it independently, read it back
    with armi.  Returns (oracle-name, message) of the first failed oracle or None."""
    from armi.nuclearDataIO.cccc import cccc

    plans = [field_plan(t, v, rot) for t in types]
    flat = [x for _, fl in plans for x in fl]
    stream = io.BytesIO() if enc == "bin" else io.StringIO()
    wcls, rcls = (cccc.BinaryRecordWriter, cccc.BinaryRecordReader) if enc == "bin" else (cccc.AsciiRecordWriter, cccc.AsciiRecordReader)
    try:
        with wcls(stream) as rec:
            for call, _ in plans:
                getattr(rec, call[0])(*_args(call, False))
    except Exception as e:
        return "write", "writer raised %r" % (e,)
    data = stream.getvalue()
    nominal = sum(f[2] if f[0] == "s" else W.SIZES[f[0]] for f in flat)
    if enc == "bin":
        payloads, err = W.frames(data)
        if err or len(payloads) != 1:
            lead = struct.unpack_from("i", data, 0)[0] if len(data) >= 4 else None
            return "frame", "framing broken: %s; leading count %s, bytes between the count words %d, field widths sum to %d" % (err or "%d records" % len(payloads), lead, len(data) - 8, nominal)
        if len(payloads[0]) != nominal:
            return "frame", "payload is %d bytes, the field widths sum to %d" % (len(payloads[0]), nominal)
        want = W.pack_fields(flat)
        if payloads[0] != want:
            return "content", "payload %r, independently packed values %r" % (payloads[0][:48], want[:48])
    else:
        widths = ["i" if f[0] in "iq" else "r" if f[0] in "fd" else ("s", f[2]) for f in flat]
        count, vals, pos, err = W.ascii_record(data, 0, widths)
        if err:
            return "frame", "ASCII record %r does not parse with fixed column widths: %s" % (data[:90], err)
        if pos != len(data):
            return "frame", "%d characters after the record" % (len(data) - pos)
        if count != nominal:
            return "frame", "ASCII record count %d, field widths sum to %d" % (count, nominal)
        if not _vals_equal(vals, _expect_read(flat, "ascii")):
            return "content", "ASCII record holds %r, written %r" % (vals[:6], _expect_read(flat, "ascii")[:6])
    # read back with armi, twice the same record back to back (the reader must stop at the boundary)
    stream = io.BytesIO(data + data) if enc == "bin" else io.StringIO(data + data)
    for rep in range(2):
        got = []
        try:
            with rcls(stream) as rec:
                for call, _ in plans:
                    got += _flat_result(call, getattr(rec, call[0])(*_args(call, True)))
        except Exception as e:
            return "read", "reader raised %r on a record the writer produced (pass %d)" % (e, rep)
        want = _expect_read(flat, enc)
        if not _vals_equal(got, want):
            bad = [(a, b) for a, b in zip(got, want) if not _vals_equal([a], [b])][:3]
            return "read-values", "read back %r, written %r (pass %d)" % ([x for x, _ in bad] or got[:6], [y for _, y in bad] or want[:6], rep)
    if stream.read() not in (b"", ""):
        return "read", "reader left data unread after two records"
    return None


def _base(t):
    return t.split(":")[0] + (":" + t.split(":")[1] if t.startswith("list:") else "")


_SCALARS = {"list:int": ["int"], "list:float": ["float"], "list:double": ["double"], "list:string": ["str8"], "matrix": ["float"],
            "dmatrix": ["double"], "imatrix": ["int"], "imap": ["int", "float"], "bool": ["int"]}


def _eval_rec(case):
    """one record: {"kind":"rec","enc":..,"types":[..],"v":..,"rot":..}"""
    enc, types, v, rot = case["enc"], case["types"], case["v"], case.get("rot", 0)
    if enc == "ascii" and any(t in ASCII_UNSUPPORTED for t in types):
        return []
    r = _run_record(enc, types, v, rot)
    if r is None:
        return []
    # attribute to the simplest field type that fails on its own with the same oracle
    culprit = None
    for t in types:
        for cand in _SCALARS.get(_base(t), []) + [t]:
            rr = _run_record(enc, [cand], v, rot)
            if rr is not None and rr[0] == r[0]:
                culprit = cand
                break
        if culprit:
            break
    tag = _base(culprit) if culprit else "combination"
    # value dependent?  (the typical-value variant of the same record passes)
    extreme = ""
    if v != 0:
        r0 = _run_record(enc, types, 0, rot)
        if r0 is None or r0[0] != r[0]:
            extreme = "-extreme-value"
    key = "c09/record-%s-%s/%s%s" % (enc, r[0], tag, extreme)
    return [core.viol(key, "%s record of fields %s (value variant %d): %s" % (enc, types, v, r[1]), dict(case, kind="rec"))]


def _eval_recbatch(case):
    """all sequences of length <= case['maxlen'] that start with case['prefix'] (a prefix shorter
    than case['plen'] stands for itself only; prefix None is the empty record)."""
    enc, rot, maxlen = case["enc"], case.get("rot", 0), case["maxlen"]
    pre = case["prefix"]
    if pre is None:
        seqs = [[]]
    elif len(pre) < case["plen"]:
        seqs = [list(pre)]
    else:
        seqs = [list(pre) + list(rest) for n in range(maxlen - len(pre) + 1) for rest in itertools.product(FIELD_TYPES, repeat=n)]
    vs, n = [], 0
    per_key = {}
    for types in seqs:
        if enc == "ascii" and any(t in ASCII_UNSUPPORTED for t in types):
            continue
        for v in (0, 1, 2):
            n += 1
            if _run_record(enc, types, v, rot) is not None:
                for viol in _eval_rec({"kind": "rec", "enc": enc, "types": types, "v": v, "rot": rot}):
                    per_key[viol["key"]] = per_key.get(viol["key"], 0) + 1
                    if per_key[viol["key"]] <= 2:
                        vs.append(viol)
    return {"viols": vs, "n": n, "nontrivial": n - (3 if pre is None else 0), "counts": per_key}


def record_cases(quick, rot):
    maxlen = MAXLEN if quick else MAXLEN + 1
    plen = 1 if quick else 2
    out = []
    for enc in ("bin", "ascii"):
        out.append({"kind": "recbatch", "enc": enc, "prefix": None, "plen": plen, "maxlen": maxlen, "rot": rot})
        for n in range(1, plen + 1):
            for pre in itertools.product(FIELD_TYPES, repeat=n):
                out.append({"kind": "recbatch", "enc": enc, "prefix": list(pre), "plen": plen, "maxlen": maxlen, "rot": rot})
    # records beyond io.DEFAULT_BUFFER_SIZE (8192) fields: the writer hands its data on in slices
    for enc in ("bin", "ascii"):
        for t in ("int", "float", "double", "string"):
            for types in (["list:%s:8193" % t], ["int", "list:%s:9000" % t, "double"], ["list:%s:8191" % t, "str8"], ["list:%s:16385" % t]):
                out.append({"kind": "rec", "enc": enc, "types": types, "v": 0, "rot": rot})
    return out, maxlen


# ---------------------------------------------------------------------------------------------
# format level


def _site(e):
    """(exception class name, armi function) - the innermost frame that belongs to a format module
    (not to the shared record classes of cccc/cccc.py), so that the class key names the record
    routine in which the failure surfaced, whatever exception the misread data happened to cause."""
    import re

    deepest = e
    seen = 0
    while getattr(deepest, "__context__", None) is not None and seen < 8:
        deepest = deepest.__context__
        seen += 1
    text = str(e)
    if "Traceback (most recent call last)" in text:
        frames_ = re.findall(r'File "([^"]*?/armi/[^"]*)", line \d+, in (\w+)', text)
        lines = [ln for ln in text.strip().splitlines() if re.match(r"^[A-Za-z_][\w.]*(Error|Exception)\b", ln)]
        cls = lines[-1].split(":")[0].split(".")[-1] if lines else type(deepest).__name__
        detail = lines[-1] if lines else repr(deepest)
    else:
        frames_ = []
        chain_, x = [], e
        while x is not None and len(chain_) < 9:
            chain_.append(x)
            x = x.__context__
        # an exception's traceback only spans raise -> catch; take the deepest exception of the
        # chain that passed through a format module at all
        for x in reversed(chain_):
            fr, tb = [], x.__traceback__
            while tb is not None:
                co = tb.tb_frame.f_code
                if "/armi/" in co.co_filename:
                    fr.append((co.co_filename, co.co_name))
                tb = tb.tb_next
            if [1 for fn, f in fr if not fn.endswith("cccc/cccc.py") and not f.startswith("<")]:
                frames_ = fr
                break
            frames_ = frames_ or fr
        cls, detail = type(deepest).__name__, repr(deepest)
    own = [f for fn, f in frames_ if not fn.endswith("cccc/cccc.py") and not f.startswith("<")]
    func = own[-1] if own else (frames_[-1][1] if frames_ else "?")
    return cls, func, detail[:300]


def _short_exc(e):
    s = str(e).strip().splitlines()
    return (type(e).__name__ + ": " + (s[-1] if s else ""))[:300]


class Stop(Exception):
    def __init__(self, stage, detail, msg):
        self.stage, self.detail, self.msg = stage, detail, msg


def _do(stage, f, *a):
    try:
        return f(*a)
    except Exception as e:  # armi's failure on a well-formed input is the finding
        cls, func, detail = _site(e)
        raise Stop(stage, func, "%s raised %s in %s [%s]" % (stage, cls, func, detail))


def _read_bytes(p):
    with open(p, "rb") as f:
        return f.read()


def _read_text(p):
    with open(p, "r", newline="") as f:
        return f.read()


def _compare_ref(enc, recs, payloads):
    """first record that deviates from the reference writer.  A reference record is
    (name, payload bytes) or (name, length) or (name, None) = present, length not modelled."""

    def same(want, got):
        if want is None:
            return True
        if isinstance(want, int):
            return len(got) == want
        return got == want

    k = next((i for i, ((_, want), got) in enumerate(zip(recs, payloads)) if not same(want, got)), min(len(recs), len(payloads)))
    if k == len(recs) == len(payloads):
        return
    if k >= len(recs):
        raise Stop("%s-layout" % enc, "extra-record", "file has %d records, the reference writer %d" % (len(payloads), len(recs)))
    name, want = recs[k]
    wlen = want if isinstance(want, int) else (len(want) if want is not None else -1)
    counts = "file has %d records, reference %d" % (len(payloads), len(recs))
    if k >= len(payloads):
        raise Stop("%s-layout" % enc, name, "record %d (%s, %d bytes) announced by the header is missing (%s)" % (k, name, wlen, counts))
    got = payloads[k]
    if len(payloads) != len(recs) or len(got) != wlen:
        raise Stop("%s-layout" % enc, name, "record %d should be %s (%d bytes by the reference writer) but is %d bytes (%s)" % (k, name, wlen, len(got), counts))
    off = next(i for i in range(len(want)) if got[i] != want[i]) // 4 * 4
    raise Stop("%s-content" % enc, name, "record %d (%s) differs from the reference writer at byte %d: %r vs %r" % (k, name, off, got[off : off + 8], want[off : off + 8]))


def chain(fmt, obj, io4, observe, ref, workdir):
    """The oracle chain for one container.  Raises Stop at the first failed oracle."""
    wb, rb, wa, ra = io4
    p = lambda n: os.path.join(workdir, n)  # noqa: E731
    o0 = observe(obj)
    # ---- binary
    _do("write-bin", wb, obj, p("f1"))
    b1 = _read_bytes(p("f1"))
    payloads, err = W.frames(b1)
    if err:
        raise Stop("bin-frame", "count", "binary file framing: %s" % err)
    if ref is not None:
        _compare_ref("bin", ref, payloads)
    c1 = _do("read-bin", rb, p("f1"))
    d = W.diff(o0, observe(c1), single=True)
    if d:
        raise Stop("roundtrip-bin", d[1], "binary write -> read: %s written %r, read back %r" % (d[0], d[2], d[3]))
    _do("rewrite-bin", wb, c1, p("f2"))
    b2 = _read_bytes(p("f2"))
    if b2 != b1:
        raise Stop("rewrite-bin", _where(b1, b2), "write(read(file)) differs from file: %s" % _bytes_diff(b1, b2))
    # ---- ASCII
    _do("write-ascii", wa, obj, p("a1"))
    t1 = _read_text(p("a1"))
    counts, err = W.ascii_counts(t1)
    if err:
        raise Stop("ascii-frame", "count", "ASCII file framing: %s" % err)
    if counts != [len(x) for x in payloads]:
        k = next((i for i, (a, b) in enumerate(zip(counts, [len(x) for x in payloads])) if a != b), min(len(counts), len(payloads)))
        raise Stop("ascii-layout", ref[k][0] if ref and k < len(ref) else "record", "ASCII record %d counts %s bytes, the binary file's record %s" % (k, counts[k] if k < len(counts) else "<none>", len(payloads[k]) if k < len(payloads) else "<none>"))
    c2 = _do("read-ascii", ra, p("a1"))
    o2 = observe(c2)
    d = W.diff(o0, o2, single=False)
    if d:
        raise Stop("roundtrip-ascii", d[1], "ASCII write -> read: %s written %r, read back %r" % (d[0], d[2], d[3]))
    _do("rewrite-ascii", wa, c2, p("a2"))
    t2 = _read_text(p("a2"))
    if t2 != t1:
        raise Stop("rewrite-ascii", "text", "writeAscii(readAscii(file)) differs from file: %s" % _bytes_diff(t1.encode(), t2.encode()))
    _do("ascii-to-bin", wb, c2, p("f3"))
    b3 = _read_bytes(p("f3"))
    if b3 != b1:
        raise Stop("ascii-to-bin", _where(b1, b3), "binary file written from the ASCII-read container differs: %s" % _bytes_diff(b1, b3))
    return {"records": len(payloads), "bytes": len(b1)}


_SOFT = []  # violations that do not stop a fixture chain (filled by fixture_chain, drained by _eval_fixture)


def _label_only(a, b):
    """True when two well-framed files differ only inside the first 24 payload bytes of record 0."""
    pa, ea = W.frames(a)
    pb, eb = W.frames(b)
    if ea or eb or len(pa) != len(pb) or not pa:
        return False
    if len(pa[0]) != len(pb[0]) or pa[0][24:] != pb[0][24:] or pa[0][:24] == pb[0][:24]:
        return False
    return all(x == y for x, y in zip(pa[1:], pb[1:]))


def _where(a, b):
    """which record first differs: the index for the three leading (file-level) records, whose
    position is the same in every file of a format; 'data-record' beyond"""
    pa, ea = W.frames(a)
    pb, eb = W.frames(b)
    if ea or eb:
        return "framing"
    if len(pa) != len(pb):
        return "record-count"
    for k, (x, y) in enumerate(zip(pa, pb)):
        if x != y:
            return "%s-%s" % ("record-%d" % k if k < 3 else "data-record", "length" if len(x) != len(y) else "content")
    return "record-content"


def _bytes_diff(a, b):
    n = min(len(a), len(b))
    i = next((k for k in range(n) if a[k] != b[k]), n)
    return "lengths %d / %d, first difference at byte %d: %r vs %r" % (len(a), len(b), i, a[i : i + 12], b[i : i + 12])


def _eval_fmt(case):
    spec = case["spec"]
    fmt = spec["fmt"]
    rot = case.get("rot", 0)
    if fmt in F.FORMATS:
        _, build, ref, io4 = F.FORMATS[fmt]
        observe = F.observe
    else:
        _, build, ref, io4, observe = X.FORMATS[fmt]
    d = env.fresh_dir("c09")
    snap = X.snapshot_tables()
    try:
        obj = build(spec, rot)
        chain(fmt, obj, io4(spec), observe, ref(spec, rot), d)
    except Stop as s:
        return [core.viol("c09/%s-%s/%s" % (fmt, s.stage, s.detail), "%s %s: %s" % (fmt.upper(), {k: v for k, v in spec.items() if k != "fmt"}, s.msg), case)]
    finally:
        shutil.rmtree(d, ignore_errors=True)
        X.restore_tables(snap)
    return []


def _eval_fmt_counted(case):
    return _eval_fmt(case)


# ---------------------------------------------------------------------------------------------
# fixture level

FIXTURE_DIRS = ["armi/nuclearDataIO/cccc/tests/fixtures", "armi/nuclearDataIO/tests/fixtures", "armi/tests"]
_BY_SUFFIX = {".dlayxs": "dlayxs", ".pwdint": "pwdint", ".rtflux": "rtflux", ".atflux": "atflux", ".rzflux": "rzflux", ".dif3d": "dif3d", ".geodst": "geodst",
              ".nhflux": "nhflux", ".gamiso": "gamiso", ".pmatrx": "pmatrx", ".isotxs": "isotxs", ".compxs": "compxs", ".fixsrc": "fixsrc"}


def classify_fixture(name):
    """file name -> (format, encoding) or None"""
    low = name.lower()
    enc = "bin"
    if low.endswith(".ascii"):
        enc, low = "ascii", low[: -len(".ascii")]
    elif low.endswith(".binary"):
        low = low[: -len(".binary")]
    if low.endswith(".nhflux.variant"):
        return "nhflux-variant", enc
    for suf, fmt in _BY_SUFFIX.items():
        if low.endswith(suf):
            return fmt, enc
    base = os.path.basename(low)
    if base in ("labels", "compxs", "geodst", "rtflux", "pwdint", "rzflux", "dif3d", "nhflux", "isotxs", "gamiso", "pmatrx", "dlayxs"):
        return base, enc
    if name.startswith("ISO") and "." not in name and len(name) <= 8:
        return "isotxs", enc
    return None


def fixture_list():
    out, skipped = [], []
    for d in FIXTURE_DIRS:
        full = os.path.join(env.REPO, d)
        if not os.path.isdir(full):
            continue
        for name in sorted(os.listdir(full)):
            if not os.path.isfile(os.path.join(full, name)) or name.endswith((".py", ".yaml", ".inp", ".md", ".txt")):
                continue
            c = classify_fixture(name)
            if c:
                out.append({"kind": "fixture", "path": d + "/" + name, "fmt": c[0], "enc": c[1]})
            elif d != "armi/tests":
                skipped.append(d + "/" + name)
    return out, skipped


def format_io(fmt):
    """fmt name -> (io4, observe) for any format, with the stream flavour encoded in the name"""
    if fmt in X.FORMATS:
        e = X.FORMATS[fmt]
        return e[3]({"fmt": fmt}), e[4]
    flav = {"rtflux": ("rtflux", {"adjoint": False}), "atflux": ("rtflux", {"adjoint": True}), "nhflux": ("nhflux", {"adjoint": False, "variant": False}),
            "nhflux-variant": ("nhflux", {"adjoint": False, "variant": True})}
    base, extra = flav.get(fmt, (fmt, {}))
    return F.FORMATS[base][3](dict(extra, fmt=base)), F.observe


def _basefmt(fmt):
    return {"atflux": "rtflux", "nhflux-variant": "nhflux"}.get(fmt, fmt)


def _norm_text(p):
    with open(p, "r") as f:  # universal newlines: CRLF fixtures compare equal to LF output
        return f.read()


def fixture_chain(fmt, enc, src, workdir):
    (wb, rb, wa, ra), observe = format_io(fmt)
    p = lambda n: os.path.join(workdir, n)  # noqa: E731
    if enc == "bin":
        b0 = _read_bytes(src)
        _, err = W.frames(b0)
        if err:
            raise Stop("fixture-frame", "count", "the fixture itself is not well framed: %s" % err)
        c = _do("read-bin", rb, src)
        o = observe(c)
        _do("write-bin", wb, c, p("f1"))
        b1 = _read_bytes(p("f1"))
        if b1 != b0:
            if _label_only(b0, b1):
                # the reader deliberately replaces the 24-character file label (record 0) by the
                # format's own label; recorded as its own class, and the chain goes on against the
                # normalised file so that any further difference is still found
                _SOFT.append(("rewrite-bin", "file-label-replaced-on-read", "write(read(file)) differs from file only in the 24-character file label: %s" % _bytes_diff(b0, b1)))
                b0 = b1
            else:
                raise Stop("rewrite-bin", _where(b0, b1), "write(read(file)) differs from file: %s" % _bytes_diff(b0, b1))
        d = W.diff(o, observe(_do("read-bin", rb, p("f1"))))
        if d:
            raise Stop("roundtrip-bin", d[1], "read(write(read(file))): %s was %r, now %r" % (d[0], d[2], d[3]))
        _do("write-ascii", wa, c, p("a1"))
        counts, err = W.ascii_counts(_read_text(p("a1")))
        payloads, _ = W.frames(b0)
        if err or counts != [len(x) for x in payloads]:
            raise Stop("ascii-layout", "counts", "ASCII form of the fixture: %s" % (err or "record counts differ from the binary record lengths"))
        c2 = _do("read-ascii", ra, p("a1"))
        d = W.diff(o, observe(c2))
        if d:
            raise Stop("roundtrip-ascii", d[1], "binary -> ASCII -> read: %s was %r, now %r" % (d[0], d[2], d[3]))
        _do("ascii-to-bin", wb, c2, p("f3"))
        b3 = _read_bytes(p("f3"))
        if b3 != b0:
            raise Stop("ascii-to-bin", _where(b0, b3), "binary -> ASCII -> binary differs from the fixture: %s" % _bytes_diff(b0, b3))
        return len(b0)
    t0 = _norm_text(src)
    counts, err = W.ascii_counts(t0)
    if err:
        raise Stop("fixture-frame", "count", "the ASCII fixture itself is not well framed: %s" % err)
    c = _do("read-ascii", ra, src)
    o = observe(c)
    _do("write-ascii", wa, c, p("a1"))
    t1 = _norm_text(p("a1"))
    if t1 != t0:
        raise Stop("rewrite-ascii", "text", "writeAscii(readAscii(file)) differs from file: %s" % _bytes_diff(t0.encode(), t1.encode()))
    _do("write-bin", wb, c, p("f1"))
    payloads, err = W.frames(_read_bytes(p("f1")))
    if err or counts != [len(x) for x in payloads]:
        raise Stop("bin-layout", "counts", "binary form of the ASCII fixture: %s" % (err or "record lengths differ from the ASCII record counts"))
    c3 = _do("read-bin", rb, p("f1"))
    d = W.diff(o, observe(c3), single=True)
    if d:
        raise Stop("roundtrip-bin", d[1], "ASCII -> binary -> read: %s was %r, now %r" % (d[0], d[2], d[3]))
    return len(t0)


def _eval_fixture(case):
    d = env.fresh_dir("c09")
    snap = X.snapshot_tables()
    del _SOFT[:]
    out = []
    try:
        fixture_chain(case["fmt"], case["enc"], os.path.join(env.REPO, case["path"]), d)
    except Stop as s:
        out.append(core.viol("c09/%s-%s/%s" % (_basefmt(case["fmt"]), s.stage, s.detail), "fixture %s: %s" % (case["path"], s.msg), case))
    finally:
        shutil.rmtree(d, ignore_errors=True)
        X.restore_tables(snap)
    for stage, detail, msg in _SOFT:
        out.append(core.viol("c09/%s-%s/%s" % (_basefmt(case["fmt"]), stage, detail), "fixture %s: %s" % (case["path"], msg), case))
    del _SOFT[:]
    return out


# ---------------------------------------------------------------------------------------------
# reduced fixtures (sub-libraries) and word-level perturbation


def _eval_reduce(case):
    d = env.fresh_dir("c09")
    snap = X.snapshot_tables()
    try:
        (wb, rb, wa, ra), observe = format_io(case["fmt"])
        src = os.path.join(env.REPO, case["path"])
        whole = _do("read-fixture", ra if case.get("enc") == "ascii" else rb, src)
        obj = X.reduce(case["fmt"], whole, case["keep"], case.get("clear"))
        chain(case["fmt"], obj, (wb, rb, wa, ra), observe, None, d)
    except Stop as s:
        return [core.viol("c09/%s-%s/%s" % (_basefmt(case["fmt"]), s.stage, s.detail), "%s reduced to members %s%s: %s" % (case["path"], case["keep"], (" with %s cleared" % case["clear"]) if case.get("clear") else "", s.msg), case)]
    finally:
        shutil.rmtree(d, ignore_errors=True)
        X.restore_tables(snap)
    return []


def real_words(read, path):
    """offsets and kinds of the real words the armi reader consumes from ``path`` (classification
    of words only - the oracle is byte equality)."""
    from armi.nuclearDataIO.cccc import cccc

    log = []
    of, od = cccc.BinaryRecordReader.rwFloat, cccc.BinaryRecordReader.rwDouble

    def rf(self, val):
        log.append((self._stream.tell(), "f"))
        return of(self, val)

    def rd(self, val):
        log.append((self._stream.tell(), "d"))
        return od(self, val)

    cccc.BinaryRecordReader.rwFloat, cccc.BinaryRecordReader.rwDouble = rf, rd
    try:
        read(path)
    finally:
        cccc.BinaryRecordReader.rwFloat, cccc.BinaryRecordReader.rwDouble = of, od
    return log


def _eval_words(case):
    """every real word of a small file, perturbed in turn, must survive read -> write"""
    d = env.fresh_dir("c09")
    snap = X.snapshot_tables()
    n = 0
    try:
        src = case["source"]
        p = lambda name: os.path.join(d, name)  # noqa: E731
        b0 = None
        if src["kind"] == "fmt":
            for spec in src["specs"]:
                (wb, rb, wa, ra), observe = format_io(_flavour(spec))
                try:
                    build = (F.FORMATS.get(spec["fmt"]) or X.FORMATS[spec["fmt"]])[1]
                    wb(build(spec, case.get("rot", 0)), p("f0"))
                    b0 = _read_bytes(p("f0"))
                    wb(rb(p("f0")), p("f1"))
                    if _read_bytes(p("f1")) == b0:
                        src = {"kind": "fmt", "spec": spec}
                        break
                except Exception:
                    pass  # reported by the plain case of the same spec
                b0 = None
                X.restore_tables(snap)
        else:
            (wb, rb, wa, ra), observe = format_io(src["fmt"])
            try:
                whole = (ra if src.get("enc") == "ascii" else rb)(os.path.join(env.REPO, src["path"]))
                wb(X.reduce(src["fmt"], whole, src["keep"], src.get("clear")), p("f0"))
                b0 = _read_bytes(p("f0"))
                wb(rb(p("f0")), p("f1"))
                if _read_bytes(p("f1")) != b0:
                    b0 = None
            except Exception:
                b0 = None
        if b0 is None:
            return {"viols": [], "n": 0}
        words = real_words(rb, p("f0"))
        payload_spans = []
        pos = 0
        for pl in W.frames(b0)[0]:
            payload_spans.append((pos + 4, pos + 4 + len(pl)))
            pos += 8 + len(pl)
        seen = set()
        for off, kind in words:
            size = 4 if kind == "f" else 8
            if off in seen or not any(a <= off and off + size <= b for a, b in payload_spans):
                continue
            seen.add(off)
            n += 1
            (old,) = struct.unpack_from(kind, b0, off)
            new = old * 1.5 + 0.25 if abs(old) < 1e30 else old / 2
            neww = struct.pack(kind, new)
            if neww == b0[off : off + size]:
                neww = struct.pack(kind, 0.75)
            b1 = b0[:off] + neww + b0[off + size :]
            with open(p("g0"), "wb") as f:
                f.write(b1)
            try:
                c = _do("words-read", rb, p("g0"))
                _do("words-write", wb, c, p("g1"))
            except Stop as s:
                return {"viols": [core.viol("c09/%s-%s/%s" % (_srcfmt(src), s.stage, s.detail), "%s: real word at byte %d changed from %r to %r: %s" % (_srcname(src), off, old, new, s.msg), case)], "n": n}
            b2 = _read_bytes(p("g1"))
            if b2 != b1:
                rec = next(k for k, (a, b) in enumerate(payload_spans) if a <= off < b)
                i = next((k for k in range(min(len(b1), len(b2))) if b1[k] != b2[k]), min(len(b1), len(b2)))
                return {"viols": [core.viol("c09/%s-words-rewrite/real-word-not-preserved" % _srcfmt(src),
                                            "%s: the real word at byte %d (record %d, word %d of its payload) was changed from %r to %r; read -> write then gives a file that differs from it at byte %d (%r instead of %r): the reader drops or the writer recomputes that word"
                                            % (_srcname(src), off, rec, (off - payload_spans[rec][0]) // 4, old, new, i, b2[i // 4 * 4 : i // 4 * 4 + 8], b1[i // 4 * 4 : i // 4 * 4 + 8]), case)], "n": n}
    finally:
        shutil.rmtree(d, ignore_errors=True)
        X.restore_tables(snap)
    return {"viols": [], "n": n}


def _flavour(spec):
    if spec["fmt"] == "rtflux":
        return "atflux" if spec.get("adjoint") else "rtflux"
    if spec["fmt"] == "nhflux":
        return "nhflux-variant" if spec.get("variant") else "nhflux"
    return spec["fmt"]


def _srcfmt(src):
    if src["kind"] == "fmt":
        return (src.get("spec") or src["specs"][0])["fmt"]
    return src["fmt"]


def _srcname(src):
    return "%s %s" % (_srcfmt(src).upper(), {k: v for k, v in src["spec"].items() if k != "fmt"} if src["kind"] == "fmt" else "%s reduced to %s" % (src["path"], src["keep"]))


# ---------------------------------------------------------------------------------------------

_EVAL = {"rec": _eval_rec, "fmt": _eval_fmt, "fixture": _eval_fixture, "reduce": _eval_reduce, "words": lambda c: _eval_words(c)["viols"]}


def evaluate(case):
    env.setup()
    return _EVAL[case["kind"]](case)


def _dispatch(case):
    if case["kind"] == "recbatch":
        return _eval_recbatch(case)
    if case["kind"] == "words":
        r = _eval_words(case)
        return {"viols": r["viols"], "n": r["n"], "nontrivial": r["n"], "counts": {}}
    return {"viols": _EVAL[case["kind"]](case), "n": 1, "nontrivial": 1, "counts": {}}


def _ref_size(entry, spec, rot):
    try:
        return sum((len(w) if not isinstance(w, int) else w) for _, w in entry[2](spec, rot) if w is not None)
    except Exception:
        return 0


def word_sources(quick, rot, fmt_cases):
    """small files whose real words are perturbed one by one: per format a spread of the
    enumerated containers over the file-size range (each pick comes with fallbacks: the first
    candidate that survives its own plain round trip is used), plus reduced fixtures"""
    out = []
    per = 6 if quick else 24
    byfmt = {}
    for c in fmt_cases:
        if not c["spec"].get("big"):  # the buffer-size containers have thousands of words: not word sources
            byfmt.setdefault(c["spec"]["fmt"], []).append(c["spec"])
    for fmt, specs in byfmt.items():
        entry = F.FORMATS.get(fmt) or X.FORMATS[fmt]
        sized = sorted(((_ref_size(entry, s, rot), k) for k, s in enumerate(specs)))
        step = max(1, len(sized) // per)
        for i in sorted(set(range(step - 1, len(sized), step)) | {len(sized) - 1}):
            cands = [specs[sized[j][1]] for j in range(i, max(-1, i - step), -max(1, step // 5))][:5]
            out.append({"kind": "words", "source": {"kind": "fmt", "specs": cands}, "rot": rot})
    for c in X.reduction_cases(True):
        small = c["fmt"] == "compxs" and c["keep"] in ([1], [2, 0])
        if small or (not quick and not c.get("clear") and len(c["keep"]) == 1 and c["keep"][0] % 4 == 0):
            out.append({"kind": "words", "source": c, "rot": rot})
    return out


def cases(ctx):
    rot = ctx.seed % 5
    out = []
    rc, maxlen = record_cases(ctx.quick, rot)
    out += rc
    fmt_cases = []
    for fmt, entry in list(F.FORMATS.items()) + list(X.FORMATS.items()):
        for s in entry[0](ctx.quick):
            fmt_cases.append({"kind": "fmt", "spec": s, "rot": rot})
    out += fmt_cases
    fx, skipped = fixture_list()
    out += fx
    out += X.reduction_cases(ctx.quick)
    out += word_sources(ctx.quick, rot, fmt_cases)
    return out, skipped, maxlen


def run(ctx):
    cs, skipped, maxlen = cases(ctx)
    # long cases first (fixtures, word passes), then the many small ones: better load balance
    heavy = [c for c in cs if c["kind"] in ("fixture", "words", "reduce")]
    light = [c for c in cs if c["kind"] not in ("fixture", "words", "reduce")]
    cs = ctx.order(heavy) + ctx.order(light)
    res = core.pmap(MOD, "_dispatch", cs, chunksize=2)
    ev = nt = 0
    for c, r in zip(cs, res):
        ev += r["n"]
        nt += r["nontrivial"]
        kind = c["kind"]
        if kind == "fmt":
            kind = "fmt_" + c["spec"]["fmt"]
        elif kind in ("fixture", "reduce"):
            kind += "_" + c["fmt"]
        elif kind == "words":
            kind = "words_" + _srcfmt(c["source"])
            ctx.count("word_sources_" + ("usable" if r["n"] else "unusable(source fails its own round trip)"))
        ctx.count("executions_" + kind + ("_" + c["enc"] if "enc" in c and kind.startswith("rec") else ""), r["n"])
        for k, n in r["counts"].items():
            ctx.count("violating_records::" + k, n)
        ctx.add_violations(r["viols"])
    for path in skipped:
        ctx.count("fixture_files_not_cccc")
    ctx.samples = [c for c in cs if c["kind"] == "fmt"][:2] + [c for c in cs if c["kind"] == "fixture"][:1] + [c for c in cs if c["kind"] == "recbatch"][:1] + [c for c in cs if c["kind"] == "words"][:1]
    ctx.coverage.update(
        evaluations=ev,
        distinct_nontrivial=nt,
        rule="record level: one evaluation per (encoding, field-type sequence of length <= %d, value variant), the empty record counted trivial; format level: one per well-formed container of the header-flag lattice (each goes through binary write/reference compare/read/re-write and the same in ASCII); one per repo fixture; one per reduced fixture; one per perturbed real word" % maxlen,
        exhaustive=True,
        field_types=len(FIELD_TYPES),
        max_fields_per_record=maxlen,
        fixtures=[c["path"] for c in cs if c["kind"] == "fixture"],
        fixture_files_not_cccc=skipped,
    )
    ctx.assumptions += [
        "field-type alphabet and three value variants per type (typical, type maximum, type minimum); strings are ASCII without trailing blanks and no longer than the field; AsciiRecordWriter has no rwLong, so long fields are explored in binary only",
        "format containers are enumerated over the stated header-flag lattices with dimensions <= 3; ISOTXS/GAMISO blocks hold one Legendre order (the container has one matrix per block), file label ISOTXS (the readers normalise the label by design)",
        "records armi refuses with NotImplementedError on both sides (1-D RTFLUX, LABELS control-rod/burnup records, ISOTXS chi matrices, PMATRX in-plate data) are outside 'can both read and write'",
        "reference writers (c09_formats, c09_xs) follow the CCCC-IV / DIF3D / MC2-3 file descriptions and are trusted; COMPXS is checked for record lengths only plus the word-perturbation pass",
    ]
