"""C09: the flux / geometry family of CCCC formats (GEODST, RTFLUX/ATFLUX, PWDINT, RZFLUX, DIF3D,
LABELS, NHFLUX (+VARIANT), FIXSRC).

For each format:  ``specs(quick)`` enumerates the header-flag lattice (pure JSON specs),
``build(spec)`` makes the real armi data container, ``ref(spec)`` is an *independent reference
writer* (list of (record-name, payload-bytes), written from the CCCC-IV / DIF3D file descriptions
with ``struct`` only), and ``io(spec)`` returns the four armi entry points.

Values: reals destined for single-precision fields are NOT representable in single precision
(so a writer that silently keeps doubles, or a reader that widens, is visible); all values are
distinct within a container so a transposed index order is visible.
"""
import itertools

from mcverif.checks import c09_wire as W


class Vals:
    """Deterministic stream of distinct values."""

    def __init__(self, rot=0):
        self.k = 0
        self.rot = rot

    def i(self):
        self.k += 1
        return self.k + 10 * self.rot

    def r(self):
        """a real that single precision cannot hold exactly"""
        self.k += 1
        return 1.0 + 0.1 * self.k + 0.013 * self.rot

    def ints(self, n):
        return [self.i() for _ in range(n)]

    def reals(self, n):
        return [self.r() for _ in range(n)]


def _np():
    import numpy as np

    return np


def _S(s, n):
    return ("s", s, n)


def _pk(flat):
    return W.pack_fields(flat)


def _imap(keys, md):
    """FORTRAN implicit typing: names starting with I..N are integers, everything else real*4."""
    return [("i" if k[0].upper() in "IJKLMN" else "f", md[k]) for k in keys]


def block_bounds(m, n, nblok):
    """CCCC blocking formula, 1-based m: JL=(M-1)*((N-1)/NBLOK+1)+1, JU=MIN(N, M*((N-1)/NBLOK+1));
    returned 0-based inclusive."""
    x = (n - 1) // nblok + 1
    return (m - 1) * x, min(n, m * x) - 1


# =============================================================================================
# GEODST

GEODST_KEYS = ("IGOM NZONE NREG NZCL NCINTI NCINTJ NCINTK NINTI NINTJ NINTK IMB1 IMB2 JMB1 JMB2 KMB1 KMB2 "
               "NBS NBCS NIBCS NZWBB NTRIAG NRASS NTHPT NGOP1 NGOP2 NGOP3 NGOP4").split()


def geodst_specs(quick):
    out = []
    igoms = [0, 1, 2, 3, 6, 9, 11, 12, 14] if quick else [0, 1, 2, 3, 6, 7, 8, 9, 10, 11, 12, 13, 14, 15, 16, 17, 18]
    for igom in igoms:
        dim = 0 if igom == 0 else 1 if igom <= 3 else 2 if igom <= 11 else 3
        meshes = list(itertools.product((1, 2), repeat=dim)) if dim else [()]
        for nrass in (0, 1):
            for nbs, nbcs, nibcs, nzwbb in itertools.product((0, 2), repeat=4):
                for nc in meshes:
                    for fine in ((1, 2) if (nrass == 1 or not quick) else (1,)):
                        out.append({"fmt": "geodst", "IGOM": igom, "NRASS": nrass, "NBS": nbs, "NBCS": nbcs, "NIBCS": nibcs,
                                    "NZWBB": nzwbb, "nc": list(nc), "fine": fine, "NREG": 2, "NZONE": 1 + (nbs > 0)})
    # NREG and NZONE (they size three lists of the 5D record) on their own
    for igom, nc in ((0, []), (1, [2]), (6, [2, 1]), (14, [1, 2, 2])):
        for nreg, nzone in itertools.product((1, 3), (1, 2, 3)):
            for nbs in (0, 2):
                out.append({"fmt": "geodst", "IGOM": igom, "NRASS": nreg % 2, "NBS": nbs, "NBCS": 1, "NIBCS": 3, "NZWBB": 1, "nc": nc, "fine": 2, "NREG": nreg, "NZONE": nzone})
    if True:  # one record beyond io.DEFAULT_BUFFER_SIZE fields (both tiers: cheap)
        out.append({"fmt": "geodst", "big": True, "IGOM": 6, "NRASS": 1, "NBS": 2, "NBCS": 2, "NIBCS": 0, "NZWBB": 0, "nc": [95, 90], "fine": 1, "NREG": 2, "NZONE": 1})
    return out


def _geodst_model(s, rot=0):
    v = Vals(rot)
    igom = s["IGOM"]
    dim = 0 if igom == 0 else 1 if igom <= 3 else 2 if igom <= 11 else 3
    nc = list(s["nc"]) + [1] * (3 - dim)
    inter = [[1 + (c % 2) * (s["fine"] - 1) for c in range(n)] for n in nc]
    nf = [sum(x) for x in inter]
    md = {k: 0 for k in GEODST_KEYS}
    md.update(IGOM=igom, NZONE=s["NZONE"], NREG=s["NREG"], NZCL=1, NCINTI=nc[0], NCINTJ=nc[1], NCINTK=nc[2], NINTI=nf[0],
              NINTJ=nf[1], NINTK=nf[2], NBS=s["NBS"], NBCS=s["NBCS"], NIBCS=s["NIBCS"], NZWBB=s["NZWBB"], NRASS=s["NRASS"])
    for k in ("IMB1", "IMB2", "JMB1", "JMB2", "KMB1", "KMB2", "NTRIAG", "NTHPT", "NGOP1", "NGOP2", "NGOP3", "NGOP4"):
        md[k] = v.i()
    m = {"md": md, "label": "GEODST  ARMI    C09", "dim": dim}
    m["mesh"] = [[10.0 * a + x for x in v.reals(nc[a] + 1)] for a in range(dim)]
    m["inter"] = inter[:dim]
    m["has5"] = igom > 0 or s["NBS"] > 0
    if m["has5"]:
        m["vols"] = v.reals(s["NREG"])
        m["buck"] = v.reals(s["NBS"])
        m["bc"] = v.reals(s["NBCS"])
        m["ibc"] = v.reals(s["NIBCS"])
        m["zwbb"] = v.ints(s["NZWBB"])
        m["zcl"] = v.ints(s["NZONE"])
        m["rzn"] = v.ints(s["NREG"])
    shape = None
    if igom > 0 and s["NRASS"] == 0:
        shape = nc
    elif igom > 0 and s["NRASS"] == 1:
        shape = nf
    m["regshape"] = shape
    if shape:
        # region numbers 1.. in (i,j,k) order, i fastest; distinct so index order is visible
        m["reg"] = {(i, j, k): 1 + i + shape[0] * (j + shape[1] * k) for k in range(shape[2]) for j in range(shape[1]) for i in range(shape[0])}
    return m


def geodst_build(s, rot=0):
    np = _np()
    from armi.nuclearDataIO.cccc import geodst

    m = _geodst_model(s, rot)
    g = geodst.GeodstData()
    g.metadata["label"] = m["label"]
    for k in GEODST_KEYS:
        g.metadata[k] = m["md"][k]
    names = (("xmesh", "iintervals"), ("ymesh", "jintervals"), ("zmesh", "kintervals"))
    for a in range(m["dim"]):
        setattr(g, names[a][0], np.array(m["mesh"][a]))
        setattr(g, names[a][1], np.array(m["inter"][a]))
    if m["has5"]:
        g.regionVolumes = np.array(m["vols"])
        g.bucklings = np.array(m["buck"])
        g.boundaryConstants = np.array(m["bc"])
        g.internalBlackBoundaryConstants = np.array(m["ibc"])
        g.zonesWithBlackAbs = np.array(m["zwbb"], dtype=int)
        g.zoneClassifications = np.array(m["zcl"], dtype=int)
        g.regionZoneNumber = np.array(m["rzn"], dtype=int)
    if m["regshape"]:
        arr = np.zeros(m["regshape"], dtype=np.int16)
        for ijk, val in m["reg"].items():
            arr[ijk] = val
        if s["NRASS"] == 0:
            g.coarseMeshRegions = arr
        else:
            g.fineMeshRegions = arr
    return g


def geodst_ref(s, rot=0):
    m = _geodst_model(s, rot)
    md = m["md"]
    recs = [("file-id", _pk([_S(m["label"], 28)])), ("1D-specifications", _pk([("i", md[k]) for k in GEODST_KEYS]))]
    if m["dim"]:
        flat = [("d", x) for a in range(m["dim"]) for x in m["mesh"][a]] + [("i", x) for a in range(m["dim"]) for x in m["inter"][a]]
        recs.append(("%dD-%s-mesh" % (m["dim"] + 1, ("one", "two", "three")[m["dim"] - 1]) + "-dimensional", _pk(flat)))
    if m["has5"]:
        flat = [("f", x) for x in m["vols"] + m["buck"] + m["bc"] + m["ibc"]] + [("i", x) for x in m["zwbb"] + m["zcl"] + m["rzn"]]
        recs.append(("5D-geometry-data", _pk(flat)))
    if m["regshape"]:
        ni, nj, nk = m["regshape"]
        for k in range(nk):
            recs.append(("%s-region-assignments" % ("6D-coarse" if s["NRASS"] == 0 else "7D-fine"),
                         _pk([("i", m["reg"][i, j, k]) for j in range(nj) for i in range(ni)])))
    return recs


def geodst_io(s):
    from armi.nuclearDataIO.cccc import geodst

    return geodst.writeBinary, geodst.readBinary, geodst.writeAscii, geodst.readAscii


# =============================================================================================
# RTFLUX / ATFLUX

RTFLUX_KEYS = "NDIM NGROUP NINTI NINTJ NINTK ITER EFFK POWER NBLOK".split()


def rtflux_specs(quick):
    out = []
    dims = (1, 2, 3)
    for adj in (False, True):
        for ndim in (2, 3):
            for ng in (1, 2) if quick else (1, 2, 3):
                for ni, nj in itertools.product(dims, dims):
                    for nk in ((1,) if ndim == 2 else (1, 2)):
                        for nb in (1, 2, 3):
                            out.append({"fmt": "rtflux", "adjoint": adj, "NDIM": ndim, "NGROUP": ng, "NINTI": ni, "NINTJ": nj, "NINTK": nk, "NBLOK": nb})
    # one record beyond io.DEFAULT_BUFFER_SIZE fields (writer buffering)
    out.append({"fmt": "rtflux", "big": True, "adjoint": False, "NDIM": 2, "NGROUP": 1, "NINTI": 95, "NINTJ": 90, "NINTK": 1, "NBLOK": 1})
    return out


def _rtflux_model(s, rot=0):
    v = Vals(rot)
    md = {k: s[k] for k in ("NDIM", "NGROUP", "NINTI", "NINTJ", "NINTK", "NBLOK")}
    md.update(ITER=v.i(), EFFK=v.r(), POWER=v.r() * 1e6)
    flux = {}
    for g in range(s["NGROUP"]):
        for k in range(s["NINTK"]):
            for j in range(s["NINTJ"]):
                for i in range(s["NINTI"]):
                    flux[i, j, k, g] = v.r() * 1e12
    return {"md": md, "flux": flux, "label": "RTFLUX" if not s["adjoint"] else "ATFLUX"}


def rtflux_build(s, rot=0):
    np = _np()
    from armi.nuclearDataIO.cccc import rtflux

    m = _rtflux_model(s, rot)
    d = rtflux.RtfluxData()
    d.metadata["label"] = m["label"]
    for k in RTFLUX_KEYS:
        d.metadata[k] = m["md"][k]
    d.groupFluxes = np.zeros((s["NINTI"], s["NINTJ"], s["NINTK"], s["NGROUP"]))
    for idx, val in m["flux"].items():
        d.groupFluxes[idx] = val
    return d


def rtflux_ref(s, rot=0):
    m = _rtflux_model(s, rot)
    recs = [("file-id", _pk([_S(m["label"], 28)])), ("1D-specifications", _pk(_imap(RTFLUX_KEYS, m["md"])))]
    ng = s["NGROUP"]
    for g in range(ng):
        # RTFLUX stores groups in order; ATFLUX stores the adjoint with the group order reversed
        gg = ng - 1 - g if s["adjoint"] else g
        for k in range(s["NINTK"]):
            for b in range(1, s["NBLOK"] + 1):
                jl, ju = block_bounds(b, s["NINTJ"], s["NBLOK"])
                recs.append(("3D-flux-block", _pk([("d", m["flux"][i, j, k, gg]) for j in range(jl, ju + 1) for i in range(s["NINTI"])])))
    return recs


def rtflux_io(s):
    from armi.nuclearDataIO.cccc import rtflux

    c = rtflux.AtfluxStream if s["adjoint"] else rtflux.RtfluxStream
    return c.writeBinary, c.readBinary, c.writeAscii, c.readAscii


# =============================================================================================
# PWDINT

PWDINT_KEYS = "TIME POWER VOL NINTI NINTJ NINTK NCY NBLOK".split()


def pwdint_specs(quick):
    d = (1, 2, 3)
    out = [{"fmt": "pwdint", "NINTI": ni, "NINTJ": nj, "NINTK": nk, "NBLOK": nb} for ni, nj, nk, nb in itertools.product(d, d, d if not quick else (1, 2), d)]
    if True:  # one record beyond io.DEFAULT_BUFFER_SIZE fields (both tiers: cheap)
        out.append({"fmt": "pwdint", "big": True, "NINTI": 95, "NINTJ": 90, "NINTK": 1, "NBLOK": 1})
    return out


def _pwdint_model(s, rot=0):
    v = Vals(rot)
    md = {k: s[k] for k in ("NINTI", "NINTJ", "NINTK", "NBLOK")}
    md.update(TIME=v.r(), POWER=v.r() * 1e6, VOL=v.r() * 100, NCY=v.i())
    ids = {"hname": "PWDINT", "huse": "ARMI", "huse2": "C09", "version": v.i(), "mult": 1}
    pw = {(i, j, k): v.r() for k in range(s["NINTK"]) for j in range(s["NINTJ"]) for i in range(s["NINTI"])}
    return {"md": md, "ids": ids, "pw": pw}


def pwdint_build(s, rot=0):
    np = _np()
    from armi.nuclearDataIO.cccc import pwdint

    m = _pwdint_model(s, rot)
    d = pwdint.PwdintData()
    for k, val in list(m["ids"].items()) + list(m["md"].items()):
        d.metadata[k] = val
    d.powerDensity = np.zeros((s["NINTI"], s["NINTJ"], s["NINTK"]), dtype=np.float32)
    for idx, val in m["pw"].items():
        d.powerDensity[idx] = val
    return d


def pwdint_ref(s, rot=0):
    m = _pwdint_model(s, rot)
    i_ = m["ids"]
    recs = [("file-id", _pk([_S(i_["hname"], 8), _S(i_["huse"], 6), _S(i_["huse2"], 6), ("i", i_["version"]), ("i", i_["mult"])])),
            ("1D-specifications", _pk(_imap(PWDINT_KEYS, m["md"])))]
    for k in range(s["NINTK"]):
        for b in range(1, s["NBLOK"] + 1):
            jl, ju = block_bounds(b, s["NINTJ"], s["NBLOK"])
            recs.append(("2D-power-density-block", _pk([("f", m["pw"][i, j, k]) for j in range(jl, ju + 1) for i in range(s["NINTI"])])))
    return recs


def pwdint_io(s):
    from armi.nuclearDataIO.cccc import pwdint

    return pwdint.writeBinary, pwdint.readBinary, pwdint.writeAscii, pwdint.readAscii


# =============================================================================================
# RZFLUX

RZFLUX_KEYS = "TIME POWER VOL EFFK EIVS DKDS TNL TNA TNSL TNBL TNBAL TNCRA X1 X2 X3 NBLOK ITPS NZONE NGROUP NCY".split()


def rzflux_specs(quick):
    d = (1, 2, 3)
    out = [{"fmt": "rzflux", "NZONE": nz, "NGROUP": ng, "NBLOK": nb, "ITPS": it}
           for nz, ng, nb in itertools.product(d + (() if quick else (5,)), d, d + (() if quick else (4,))) for it in ((1,) if quick else (0, 1, 2, 3))]
    if True:  # one record beyond io.DEFAULT_BUFFER_SIZE fields (both tiers: cheap)
        out.append({"fmt": "rzflux", "big": True, "NZONE": 95, "NGROUP": 90, "NBLOK": 1, "ITPS": 1})
    return out


def _rzflux_model(s, rot=0):
    v = Vals(rot)
    md = {}
    for k in RZFLUX_KEYS:
        md[k] = s[k] if k in s else (v.i() if k[0] in "IJKLMN" else v.r())
    fl = {(g, z): v.r() * 1e10 for z in range(s["NZONE"]) for g in range(s["NGROUP"])}
    return {"md": md, "fl": fl, "label": "RZFLUX"}


def rzflux_build(s, rot=0):
    np = _np()
    from armi.nuclearDataIO.cccc import rzflux

    m = _rzflux_model(s, rot)
    d = rzflux.RzfluxData()
    d.metadata["label"] = m["label"]
    for k in RZFLUX_KEYS:
        d.metadata[k] = m["md"][k]
    d.groupFluxes = np.zeros((s["NGROUP"], s["NZONE"]), dtype=np.float32)
    for idx, val in m["fl"].items():
        d.groupFluxes[idx] = val
    return d


def rzflux_ref(s, rot=0):
    m = _rzflux_model(s, rot)
    recs = [("file-id", _pk([_S(m["label"], 28)])), ("1D-specifications", _pk(_imap(RZFLUX_KEYS, m["md"])))]
    for b in range(1, s["NBLOK"] + 1):
        jl, ju = block_bounds(b, s["NZONE"], s["NBLOK"])
        recs.append(("2D-zone-flux-block", _pk([("f", m["fl"][g, z]) for z in range(jl, ju + 1) for g in range(s["NGROUP"])])))
    return recs


def rzflux_io(s):
    from armi.nuclearDataIO.cccc import rzflux

    return rzflux.writeBinary, rzflux.readBinary, rzflux.writeAscii, rzflux.readAscii


# =============================================================================================
# DIF3D

DIF3D_2D = ("IPROBT ISOLNT IXTRAP MINBSZ NOUTMX IRSTRT LIMTIM NUPMAX IOSAVE IOMEG1 INRMAX NUMORP IRETRN".split()
            + ["IEDF%d" % e for e in range(1, 11)]
            + "NOUTBQ I0FLUX NOEDIT NOD3ED ISRHED NSN NSWMAX NAPRX NAPRXZ NFMCMX NXYSWP NZSWP ISYMF NCMRZS ISEXTR NPNO NXTR IOMEG2 IFULL NVFLAG ISIMPL IWNHFL IPERT IHARM".split())
DIF3D_3D = "EPS1 EPS2 EPS3 EFFK FISMIN PSINRM POWIN SIGBAR EFFKQ EPSWP".split() + ["DUM%d" % e for e in range(1, 21)]


def dif3d_specs(quick):
    c = (0, 1, 3) if quick else (0, 1, 2, 3, 5)
    # the last one: a record beyond io.DEFAULT_BUFFER_SIZE fields (writer buffering)
    return [{"fmt": "dif3d", "NUMORP": a, "NCMRZS": b} for a, b in itertools.product(c, c)] + [{"fmt": "dif3d", "big": True, "NUMORP": 8200, "NCMRZS": 4100}]


def _dif3d_model(s, rot=0):
    v = Vals(rot)
    ids = {"HNAME": "DIF3D", "HUSE1": "ARMI", "HUSE2": "C09", "VERSION": v.i()}
    title = {"TITLE%d" % i: "T%d-%s" % (i, "abcdef"[: i % 6]) for i in range(11)}
    one = {"MAXSIZ": v.i(), "MAXBLK": v.i(), "IPRINT": v.i()}
    two = {k: v.i() for k in DIF3D_2D}
    two["NUMORP"], two["NCMRZS"] = s["NUMORP"], s["NCMRZS"]
    three = {k: v.r() for k in DIF3D_3D}
    four = {"OMEGA%d" % e: v.r() for e in range(1, s["NUMORP"] + 1)} if s["NUMORP"] else None
    five = None
    if s["NCMRZS"]:
        five = {"ZCMRC%d" % e: v.r() for e in range(1, s["NCMRZS"] + 1)}
        five.update({"NZINTS%d" % e: v.i() for e in range(1, s["NCMRZS"] + 1)})
    return {"ids": ids, "title": title, "one": one, "two": two, "three": three, "four": four, "five": five}


def dif3d_build(s, rot=0):
    from armi.nuclearDataIO.cccc import dif3d

    m = _dif3d_model(s, rot)
    d = dif3d.Dif3dData()
    for part in ("ids", "title", "one"):
        for k, val in m[part].items():
            d.metadata[k] = val
    d.twoD = dict(m["two"])
    d.threeD = dict(m["three"])
    d.fourD = dict(m["four"]) if m["four"] is not None else None
    d.fiveD = dict(m["five"]) if m["five"] is not None else None
    return d


def dif3d_ref(s, rot=0):
    m = _dif3d_model(s, rot)
    recs = [("file-id", _pk([_S(m["ids"][k], 8) for k in ("HNAME", "HUSE1", "HUSE2")] + [("i", m["ids"]["VERSION"])])),
            ("1D-title-storage", _pk([_S(m["title"]["TITLE%d" % i], 8) for i in range(11)] + [("i", m["one"][k]) for k in ("MAXSIZ", "MAXBLK", "IPRINT")])),
            ("2D-integer-control", _pk([("i", m["two"][k]) for k in DIF3D_2D])),
            ("3D-real-control", _pk([("d", m["three"][k]) for k in DIF3D_3D]))]
    if s["NUMORP"]:
        recs.append(("4D-overrelaxation-factors", _pk([("d", m["four"]["OMEGA%d" % e]) for e in range(1, s["NUMORP"] + 1)])))
    if s["NCMRZS"]:
        recs.append(("5D-axial-rebalance", _pk([("d", m["five"]["ZCMRC%d" % e]) for e in range(1, s["NCMRZS"] + 1)]
                                               + [("i", m["five"]["NZINTS%d" % e]) for e in range(1, s["NCMRZS"] + 1)])))
    return recs


def dif3d_io(s):
    from armi.nuclearDataIO.cccc import dif3d

    return dif3d.writeBinary, dif3d.readBinary, dif3d.writeAscii, dif3d.readAscii


# =============================================================================================
# LABELS

LABELS_KEYS = ("numZones numRegions numAreas numRegionAreaAssignments numHalfHeightsDirection1 numHalfHeightsDirection2 "
               "numNuclideSets numZoneAliases numTrianglesPerHex numHexagonalRings numControlRodChannels numControlRodBanks "
               "numAxialFineMeshBins maxControlRodBankTimes maxControlRodsPerBank maxControlRodsMeshes maxControlRodPieces "
               "maxControlRodChannels numBurnupDependentIsotopes maxBurnupDependentGroups maxBurnupPolynomialOrder modelDimensions").split()


def labels_specs(quick):
    c = (0, 1, 2)
    out = []
    for nz, nr in itertools.product((1, 2), (1, 2)):
        for na, nraa in ((0, 0), (1, 2), (2, 1)) if quick else itertools.product(c, c):
            for h1, h2 in itertools.product(c, c):
                for ns, nal in itertools.product(c, c):
                    out.append({"fmt": "labels", "numZones": nz, "numRegions": nr, "numAreas": na, "numRegionAreaAssignments": nraa,
                                "numHalfHeightsDirection1": h1, "numHalfHeightsDirection2": h2, "numNuclideSets": ns, "numZoneAliases": nal})
    if True:  # one record beyond io.DEFAULT_BUFFER_SIZE fields (both tiers: cheap)
        out.append({"fmt": "labels", "big": True, "numZones": 8200, "numRegions": 3, "numAreas": 1, "numRegionAreaAssignments": 2,
                    "numHalfHeightsDirection1": 1, "numHalfHeightsDirection2": 0, "numNuclideSets": 2, "numZoneAliases": 1})
    return out


def _labels_model(s, rot=0):
    v = Vals(rot)
    md = {k: 0 for k in LABELS_KEYS}
    for k in s:
        if k in md:
            md[k] = s[k]
    for k in ("numTrianglesPerHex", "numHexagonalRings", "numControlRodChannels", "numAxialFineMeshBins", "maxControlRodBankTimes",
              "maxControlRodsPerBank", "maxControlRodsMeshes", "maxControlRodPieces", "maxControlRodChannels", "modelDimensions"):
        md[k] = v.i()
    m = {"md": md, "ids": {"hname": "LABELS", "huse": "ARMI", "huse2": "C09", "version": v.i()}, "dummy": v.ints(2)}

    def names(prefix, n):
        return ["%s %d%s" % (prefix, i, "xy"[: i % 3]) for i in range(n)]

    m["zone"] = names("Z", s["numZones"])
    m["region"] = names("RG", s["numRegions"])
    m["area"] = names("A", s["numAreas"])
    m["raa"] = names("RA", s["numRegionAreaAssignments"])
    m["has3"] = s["numHalfHeightsDirection1"] > 0 or s["numHalfHeightsDirection2"] > 0
    m["hh1"], m["ex1"] = v.reals(s["numHalfHeightsDirection1"]), v.reals(s["numHalfHeightsDirection1"])
    m["hh2"], m["ex2"] = v.reals(s["numHalfHeightsDirection2"]), v.reals(s["numHalfHeightsDirection2"])
    m["nsets"] = names("NS", s["numNuclideSets"]) if s["numNuclideSets"] > 1 else []
    m["alias"] = names("AL", s["numZoneAliases"])
    return m


def labels_build(s, rot=0):
    np = _np()
    from armi.nuclearDataIO.cccc import labels

    m = _labels_model(s, rot)
    d = labels.LabelsData()
    for k, val in list(m["ids"].items()) + list(m["md"].items()):
        d.metadata[k] = val
    d.metadata["dummy"] = np.array(m["dummy"])
    d.zoneLabels, d.regionLabels, d.areaLabels, d.regionAreaAssignments = (np.array(m[k], dtype=str) for k in ("zone", "region", "area", "raa"))
    if m["has3"]:
        d.halfHeightsDirection1, d.extrapolationDistance1 = np.array(m["hh1"]), np.array(m["ex1"])
        d.halfHeightsDirection2, d.extrapolationDistance2 = np.array(m["hh2"]), np.array(m["ex2"])
    if s["numNuclideSets"] > 1:
        d.nuclideSetLabels = np.array(m["nsets"], dtype=str)
    if s["numZoneAliases"] > 0:
        d.aliasZoneLabels = np.array(m["alias"], dtype=str)
    return d


def labels_ref(s, rot=0):
    m = _labels_model(s, rot)
    recs = [("file-id", _pk([_S(m["ids"][k], 8) for k in ("hname", "huse", "huse2")] + [("i", m["ids"]["version"])])),
            ("1D-specifications", _pk([("i", m["md"][k]) for k in LABELS_KEYS] + [("i", x) for x in m["dummy"]])),
            ("2D-label-and-area-data", _pk([_S(x, 8) for x in m["zone"] + m["region"] + m["area"] + m["raa"]]))]
    if m["has3"]:
        recs.append(("3D-finite-geometry-transverse-distances", _pk([("f", x) for x in m["hh1"] + m["ex1"] + m["hh2"] + m["ex2"]])))
    if s["numNuclideSets"] > 1:
        recs.append(("4D-nuclide-set-labels", _pk([_S(x, 8) for x in m["nsets"]])))
    if s["numZoneAliases"] > 0:
        recs.append(("5D-alias-zone-labels", _pk([_S(x, 8) for x in m["alias"]])))
    return recs


def labels_io(s):
    from armi.nuclearDataIO.cccc import labels

    return labels.writeBinary, labels.readBinary, labels.writeAscii, labels.readAscii


# =============================================================================================
# NHFLUX (DIF3D-Nodal and DIF3D-VARIANT 11)

NHFLUX_KEYS = "ndim ngroup ninti nintj nintk iter effk power nSurf nMom nintxy npcxy nscoef itrord iaprx ileak iaprxz ileakz iorder".split()
NHFLUX_VAR = "npcbdy npcsym npcsec iwnhfl nMoms".split()


def nhflux_specs(quick):
    """Every count of the 1D record that sizes a later record is varied on its own: nintxy, nSurf
    (2D pointers, 4D currents), the number of non-node lateral surfaces npcxy - nintxy*nSurf ("next":
    rows of incoming currents in the 4D record), and for VARIANT npcbdy (external pointers in the 2D
    record), npcsym, npcsec (symmetry/sector pointers), nMom, nMoms, nscoef, iwnhfl.  In a VARIANT
    file next = npcbdy + npcsym + npcsec; "slack" adds a surface no count explains, so that the
    two formulas armi has for "number of outer surfaces" disagree in both directions."""
    out = []
    geoms = ((1, 6, 6), (2, 6, 8), (1, 4, 0), (2, 3, 1)) if quick else ((1, 6, 6), (2, 6, 8), (1, 4, 0), (3, 4, 2), (2, 3, 1), (3, 2, 5))
    for adj, ng, nz in [(False, 1, 1), (False, 2, 1), (False, 1, 2), (False, 2, 2), (True, 2, 1), (True, 2, 2)] + ([] if quick else [(True, 3, 1), (False, 3, 2)]):
        for nass, nsurf, nbdy in geoms:
            for nscoef in (1, 2):
                for nmom in (1, 2) if quick else (1, 2, 5):
                    out.append({"fmt": "nhflux", "adjoint": adj, "variant": False, "ngroup": ng, "nintk": nz, "nintxy": nass, "nSurf": nsurf,
                                "next": nbdy, "nMom": nmom, "nscoef": nscoef})
                for nmom, nmoms in ((1, 0), (2, 2), (1, 2)) if quick else ((1, 0), (2, 2), (1, 2), (5, 3), (2, 0)):
                    for nsym, nsec in ((0, 0), (3, 0), (0, 2), (3, 1)):
                        for slack in (0, 1, -1):
                            for iw in (0, 1):
                                if iw == 1 and (slack or nscoef == 2):
                                    continue  # no current records: nothing depends on these
                                nxt = nbdy + nsym + nsec + slack
                                if nxt < 0 or (slack == -1 and nsym + nsec == 0):
                                    continue
                                out.append({"fmt": "nhflux", "adjoint": adj, "variant": True, "ngroup": ng, "nintk": nz, "nintxy": nass, "nSurf": nsurf,
                                            "next": nxt, "npcbdy": nbdy, "nMom": nmom, "nscoef": nscoef, "iwnhfl": iw, "nMoms": nmoms, "npcsym": nsym, "npcsec": nsec})
    if True:  # one record beyond io.DEFAULT_BUFFER_SIZE fields (both tiers: cheap)
        out.append({"fmt": "nhflux", "big": True, "adjoint": False, "variant": True, "ngroup": 1, "nintk": 1, "nintxy": 1400, "nSurf": 6, "next": 40, "npcbdy": 30,
                    "nMom": 1, "nscoef": 1, "iwnhfl": 0, "nMoms": 1, "npcsym": 6, "npcsec": 4})
    return out


def _nhflux_model(s, rot=0):
    v = Vals(rot)
    na, ns, nx, ng, nz, nc = s["nintxy"], s["nSurf"], s["next"], s["ngroup"], s["nintk"], s["nscoef"]
    md = {k: v.i() for k in NHFLUX_KEYS}
    md.update(ndim=3, ngroup=ng, nintk=nz, nSurf=ns, nMom=s["nMom"], nintxy=na, npcxy=na * ns + nx, nscoef=nc, effk=v.r(), power=v.r() * 1e6)
    keys = list(NHFLUX_KEYS)
    if s["variant"]:
        md.update(npcbdy=s["npcbdy"], npcsym=s["npcsym"], npcsec=s["npcsec"], iwnhfl=s["iwnhfl"], nMoms=s["nMoms"])
        keys += NHFLUX_VAR + ["IDUM%02d" % e for e in range(1, 7)]
    else:
        keys += ["IDUM%02d" % e for e in range(1, 12)]
    for k in keys:
        if k.startswith("IDUM"):
            md[k] = v.i()
    m = {"md": md, "keys": keys, "label": "NAFLUX" if s["adjoint"] else "NHFLUX"}
    m["inptr"] = {(j, i): v.i() for i in range(na) for j in range(ns)}  # (surface, assembly)
    # external-surface pointers: Nodal has one per non-node surface, VARIANT one per npcbdy
    m["extptr"] = v.ints(s["npcbdy"] if s["variant"] else nx)
    m["map"] = v.ints(na)
    npcsto = (s["npcsym"] + s["npcsec"]) if s["variant"] else 0
    m["outsym"], m["insym"] = v.ints(npcsto), v.ints(npcsto)
    tot = s["nMom"] + (s["nMoms"] if s["variant"] else 0)
    m["tot"] = tot
    m["currents"] = not (s["variant"] and s["iwnhfl"] == 1)
    m["flux"] = {(i, z, mo, g): v.r() for g in range(ng) for z in range(nz) for i in range(na) for mo in range(tot)}
    if m["currents"]:
        m["pch"] = {(i, z, j, g, c): v.r() for g in range(ng) for z in range(nz) for i in range(na) for j in range(ns) for c in range(nc)}
        m["pce"] = {(j, z, g, c): v.r() for g in range(ng) for z in range(nz) for j in range(nx) for c in range(nc)}
        m["pcz"] = {(i, z, j, g, c): v.r() for g in range(ng) for z in range(nz + 1) for j in range(2) for i in range(na) for c in range(nc)}
    return m


def nhflux_build(s, rot=0):
    np = _np()
    from armi.nuclearDataIO.cccc import nhflux

    m = _nhflux_model(s, rot)
    na, ns, nx, ng, nz, nc = s["nintxy"], s["nSurf"], s["next"], s["ngroup"], s["nintk"], s["nscoef"]
    d = nhflux.NHFLUX(variant=s["variant"])
    d.metadata["label"] = m["label"]
    for k in m["keys"]:
        d.metadata[k] = m["md"][k]
    d.incomingPointersToAllAssemblies = np.zeros((ns, na), dtype=int)
    for idx, val in m["inptr"].items():
        d.incomingPointersToAllAssemblies[idx] = val
    d.externalCurrentPointers = np.array(m["extptr"], dtype=int)
    d.geodstCoordMap = np.array(m["map"], dtype=int)
    if s["variant"]:
        d.outgoingPCSymSecPointers = np.array(m["outsym"], dtype=int)
        d.ingoingPCSymSecPointers = np.array(m["insym"], dtype=int)
    d.fluxMomentsAll = np.zeros((na, nz, m["tot"], ng))
    for idx, val in m["flux"].items():
        d.fluxMomentsAll[idx] = val
    if m["currents"]:
        d.partialCurrentsHexAll = np.zeros((na, nz, ns, ng, nc))
        d.partialCurrentsHex_extAll = np.zeros((nx, nz, ng, nc))
        d.partialCurrentsZAll = np.zeros((na, nz + 1, 2, ng, nc))
        for name, key in (("partialCurrentsHexAll", "pch"), ("partialCurrentsHex_extAll", "pce"), ("partialCurrentsZAll", "pcz")):
            arr = getattr(d, name)
            for idx, val in m[key].items():
                arr[idx] = val
    return d


def nhflux_ref(s, rot=0):
    m = _nhflux_model(s, rot)
    na, ns, nx, ng, nz, nc = s["nintxy"], s["nSurf"], s["next"], s["ngroup"], s["nintk"], s["nscoef"]
    recs = [("file-id", _pk([_S(m["label"], 28)])), ("1D-specifications", _pk(_imap(m["keys"], m["md"])))]
    flat = [("i", m["inptr"][j, i]) for i in range(na) for j in range(ns)] + [("i", x) for x in m["extptr"] + m["map"]]
    if s["variant"]:
        flat += [("i", x) for x in m["outsym"] + m["insym"]]
    recs.append(("2D-nodal-index-map", _pk(flat)))
    for g in range(ng):
        gg = ng - 1 - g if s["adjoint"] else g
        for z in range(nz):
            flat = [("d", m["flux"][i, z, mo, gg]) for i in range(na) for mo in range(s["nMom"])]
            if s["variant"] and s["nMoms"] > 0:
                flat += [("d", m["flux"][i, z, s["nMom"] + mo, gg]) for i in range(na) for mo in range(s["nMoms"])]
            recs.append(("3D-flux-moments", _pk(flat)))
        if m["currents"]:
            for z in range(nz):
                flat = [("d", m["pch"][i, z, j, gg, c]) for i in range(na) for j in range(ns) for c in range(nc)]
                flat += [("d", m["pce"][j, z, gg, c]) for j in range(nx) for c in range(nc)]
                recs.append(("4D-xy-partial-currents", _pk(flat)))
            for z in range(nz + 1):
                recs.append(("5D-z-partial-currents", _pk([("d", m["pcz"][i, z, j, gg, c]) for j in range(2) for i in range(na) for c in range(nc)])))
    return recs


def nhflux_io(s):
    from armi.nuclearDataIO.cccc import nhflux

    c = nhflux.getNhfluxReader(s["adjoint"], s["variant"])
    return c.writeBinary, c.readBinary, c.writeAscii, c.readAscii


# =============================================================================================
# FIXSRC (no module-level ASCII entry points: the stream class is driven directly for ASCII)


def fixsrc_specs(quick):
    d = (1, 2)
    return ([{"fmt": "fixsrc", "shape": list(sh)} for sh in itertools.product(d, d, d, d)] + ([] if quick else [{"fmt": "fixsrc", "shape": [3, 3, 2, 4]}])
            + [{"fmt": "fixsrc", "big": True, "shape": [95, 90, 1, 1]}])


def _fixsrc_model(s, rot=0):
    v = Vals(rot)
    ni, nj, nz, ng = s["shape"]
    return {"src": {(i, j, z, g): v.r() * 1e9 for g in range(ng) for z in range(nz) for j in range(nj) for i in range(ni)}}


def fixsrc_build(s, rot=0):
    np = _np()
    m = _fixsrc_model(s, rot)
    a = np.zeros(s["shape"])
    for idx, val in m["src"].items():
        a[idx] = val
    return a


def fixsrc_ref(s, rot=0):
    m = _fixsrc_model(s, rot)
    ni, nj, nz, ng = s["shape"]
    fc = [0, 3, ng, ni, nj, nz, 1, 1, 0, 0, 0, 0, 1]
    recs = [("file-id", _pk([_S("FIXSRC", 24), ("i", 1)])), ("1D-specifications", _pk([("i", x) for x in fc]))]
    for g in range(ng):
        for z in range(nz):
            recs.append(("3D-distributed-source", _pk([("d", m["src"][i, j, z, g]) for j in range(nj) for i in range(ni)])))
    return recs


def fixsrc_io(s):
    np = _np()
    from armi.nuclearDataIO.cccc import fixsrc

    def wb(data, fn):
        fixsrc.writeBinary(fn, data)

    def rb(fn):
        return fixsrc.readBinary(fn)

    def wa(data, fn):
        with fixsrc.FIXSRC(fn, "w", data) as fs:
            fs.readWrite()

    def ra(fn):
        with fixsrc.FIXSRC(fn, "r", np.zeros((0, 0, 0, 0))) as fs:
            fs.readWrite()
        return fs.fixSrc

    return wb, rb, wa, ra


# =============================================================================================

FORMATS = {
    "geodst": (geodst_specs, geodst_build, geodst_ref, geodst_io),
    "rtflux": (rtflux_specs, rtflux_build, rtflux_ref, rtflux_io),
    "pwdint": (pwdint_specs, pwdint_build, pwdint_ref, pwdint_io),
    "rzflux": (rzflux_specs, rzflux_build, rzflux_ref, rzflux_io),
    "dif3d": (dif3d_specs, dif3d_build, dif3d_ref, dif3d_io),
    "labels": (labels_specs, labels_build, labels_ref, labels_io),
    "nhflux": (nhflux_specs, nhflux_build, nhflux_ref, nhflux_io),
    "fixsrc": (fixsrc_specs, fixsrc_build, fixsrc_ref, fixsrc_io),
}


def observe(obj):
    """Canonical observation of a flux-family container: every public attribute plus metadata."""
    if hasattr(obj, "metadata"):
        d = {k: v for k, v in vars(obj).items()}
        return W.canon(d)
    return W.canon(obj)
