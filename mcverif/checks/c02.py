"""C02 - mass, volume and number densities are accounted consistently at every level.

Explicit-state BFS over histories of composition edits on the real ARMI objects (DESIGN 4/C02).

Initial states (pure JSON ``init``):
  {"kind":"block", ...}   one block built through the component/block constructors from the table
                          shape x multiplicity x material x temperatures x {hex, Cartesian}:
                          inner component + DerivedShape sodium coolant + HT9 boundary duct
  {"kind":"rich", ...}    hand-built multi-component blocks (pin, clad, wire, coolant, duct, ...)
  {"kind":"assembly",...} 2-3 equal-area blocks stacked in a Hex/Cartesian assembly (constructors),
                          or a blueprint-built assembly (linked dimensions) via mcverif.build
  {"kind":"core", ...}    third-core hex core from mcverif.build (centre assembly: symmetry factor 3)

Alphabet: composition setters at component / block / assembly / core level (``alphabet``).
Oracle, evaluated in EVERY reached state against the reference model in c02_model.py, whose only
inputs are the per-component number-density dicts, closed-form component volumes computed here
from the hot dimensions, block heights and the symmetry factor implied by the position:
additivity of mass / atoms / volume over children, homogenised density = sum N V / sum V,
mass = density x volume, getMasses vs getMass, mass fractions sum to one, densityTools conversions
mutually inverse; and for every transition: read-back of the requested value at the level it was
set, every other nuclide unchanged at that level, untouched subtrees bit-identical, predicted
per-component distribution.
"""
import math

from mcverif import core, explore
from mcverif.checks.c02_model import TRACE, Model, Refusal

PROPERTY = "C02"
LEVEL = "model_checking"
MOD = "mcverif.checks.c02"

# DESIGN 3.4: algebraically equal but differently associated arithmetic (mass sums, volume-weighted
# means): relative 1e-10.  No absolute slack except where two computed terms cancel (removeMass), and
# then relative to the magnitude of the operands.
RTOL = 1e-10

# ---------------------------------------------------------------------------------------------
# bounds (one place)

SHAPES = [
    ("Circle", {"od": 0.8, "id": 0.2}),
    ("Hexagon", {"op": 1.2, "ip": 0.4}),
    ("Rectangle", {"lengthOuter": 1.5, "lengthInner": 0.5, "widthOuter": 1.0, "widthInner": 0.4}),
    ("SolidRectangle", {"lengthOuter": 1.2, "widthOuter": 0.7}),
    ("Square", {"widthOuter": 1.1, "widthInner": 0.3}),
    ("Triangle", {"base": 1.4, "height": 0.9}),
    ("HoledHexagon", {"op": 1.6, "holeOD": 0.3, "nHoles": 3}),
    ("HexHoledCircle", {"od": 1.5, "holeOP": 0.5}),
    ("HoledRectangle", {"lengthOuter": 1.5, "widthOuter": 1.1, "holeOD": 0.4}),
    ("HoledSquare", {"widthOuter": 1.3, "holeOD": 0.5}),
    ("Helix", {"od": 0.3, "id": 0.1, "axialPitch": 20.0, "helixDiameter": 1.0}),
]
MULTS = [1.0, 7.0]
MATERIALS = ["UZr", "HT9", "Sodium", "UraniumOxide", "B4C", "Void"]
TEMPS = [[25.0, 25.0], [25.0, 450.0]]
NAME_OF = {"UZr": "fuel", "UraniumOxide": "fuel", "B4C": "control", "HT9": "shield", "Sodium": "bond", "Void": "gap"}


def bounds(quick):
    """depth and, per depth, the minimum operation rank offered (see ``target_ops``)."""
    return {
        "table_geoms": "alternate" if quick else "both",  # quick: hex/Cartesian alternate over the table
        "table": (1, [0]) if quick else (2, [0, 1]),
        "rich": (2, [0, 1]) if quick else (3, [0, 1, 1]),
        "assembly": (2, [0, 1]) if quick else (3, [0, 1, 1]),
        "assembly-blueprint": (1, [0]) if quick else (2, [0, 2]),
        "core": (2, [0, 2]) if quick else (3, [0, 2, 2]),
        "core-cartesian": (1, [0]) if quick else (2, [0, 2]),
        # staleness searches: parent-level edits interleaved with geometry changes of descendants
        "assembly-stale": (3, ["stale"] * 3) if quick else (4, ["stale"] * 4),
        "core-stale": (2, ["stale"] * 2) if quick else (3, ["stale"] * 3),
        "core-cartesian-stale": (3, ["stale"] * 3),
        "max_states": None if quick else 250000,
    }


# ---------------------------------------------------------------------------------------------
# numeric helpers


def close(a, b, scale=0.0, rtol=RTOL):
    a, b = float(a), float(b)
    if a == b:
        return True
    if math.isnan(a) or math.isnan(b) or math.isinf(a) or math.isinf(b):
        return False
    return abs(a - b) <= rtol * max(abs(a), abs(b), abs(scale))


def sig(x, n=10):
    return "%.*e" % (n - 1, float(x))


# ---------------------------------------------------------------------------------------------
# building the real objects


class State:
    pass


def _comp(shape, name, mat, T, dims, mult):
    from armi.reactor import components

    return getattr(components, shape)(name, mat, Tinput=T[0], Thot=T[1], mult=mult, **dims)


def _boundary(geom, which="table"):
    from armi.reactor import components

    if geom == "hex":
        return [components.Hexagon("duct", "HT9", Tinput=25.0, Thot=450.0, op=16.0, ip=15.3, mult=1.0)]
    return [components.Square("duct", "HT9", Tinput=25.0, Thot=450.0, widthOuter=10.0, widthInner=9.5, mult=1.0)]


def _new_block(geom, name, height):
    from armi.reactor import blocks

    return (blocks.HexBlock if geom == "hex" else blocks.CartesianBlock)(name, height=height)


def _table_block(init):
    from armi.reactor import components

    b = _new_block(init["geom"], "fuel", init["height"])
    dims = dict(SHAPES[init["shape"]][1])
    b.add(_comp(SHAPES[init["shape"]][0], NAME_OF[init["mat"]], init["mat"], init["T"], dims, init["mult"]))
    b.add(components.DerivedShape("coolant", "Sodium", Tinput=450.0, Thot=450.0))
    for c in _boundary(init["geom"]):
        b.add(c)
    return b


def _rich_block(which, height=12.5, name="fuel"):
    from armi.reactor import components as C

    if which == "hexfuel":
        b = _new_block("hex", name, height)
        for c in (
            C.Circle("fuel", "UZr", Tinput=25.0, Thot=600.0, od=0.76, id=0.0, mult=19.0),
            C.Circle("clad", "HT9", Tinput=25.0, Thot=470.0, od=0.9, id=0.78, mult=19.0),
            C.Helix("wire", "HT9", Tinput=25.0, Thot=450.0, od=0.1, id=0.0, axialPitch=30.0, helixDiameter=1.0, mult=19.0),
            C.DerivedShape("coolant", "Sodium", Tinput=450.0, Thot=450.0),
            C.Hexagon("duct", "HT9", Tinput=25.0, Thot=450.0, op=16.0, ip=15.3, mult=1.0),
            C.Hexagon("intercoolant", "Sodium", Tinput=450.0, Thot=450.0, op=16.75, ip=16.0, mult=1.0),
        ):
            b.add(c)
    elif which == "hexplenum":
        b = _new_block("hex", name, height)
        for c in (
            C.Circle("gap", "Void", Tinput=25.0, Thot=600.0, od=0.78, id=0.0, mult=19.0),
            C.Circle("clad", "HT9", Tinput=25.0, Thot=470.0, od=0.9, id=0.78, mult=19.0),
            C.DerivedShape("coolant", "Sodium", Tinput=450.0, Thot=450.0),
            C.Hexagon("duct", "HT9", Tinput=25.0, Thot=450.0, op=16.0, ip=15.3, mult=1.0),
            C.Hexagon("intercoolant", "Sodium", Tinput=450.0, Thot=450.0, op=16.75, ip=16.0, mult=1.0),
        ):
            b.add(c)
    elif which == "hexcontrol":
        b = _new_block("hex", name, height)
        for c in (
            C.Circle("control", "B4C", Tinput=25.0, Thot=500.0, od=1.2, id=0.0, mult=7.0),
            C.Circle("clad", "HT9", Tinput=25.0, Thot=470.0, od=1.4, id=1.25, mult=7.0),
            C.DerivedShape("coolant", "Sodium", Tinput=450.0, Thot=450.0),
            C.Hexagon("duct", "HT9", Tinput=25.0, Thot=450.0, op=16.0, ip=15.3, mult=1.0),
            C.Hexagon("intercoolant", "Sodium", Tinput=450.0, Thot=450.0, op=16.75, ip=16.0, mult=1.0),
        ):
            b.add(c)
    elif which == "cartoxide":
        b = _new_block("cart", name, height)
        for c in (
            C.Circle("fuel", "UraniumOxide", Tinput=25.0, Thot=900.0, od=0.82, id=0.0, mult=16.0),
            C.Circle("clad", "HT9", Tinput=25.0, Thot=350.0, od=0.95, id=0.84, mult=16.0),
            C.DerivedShape("coolant", "Sodium", Tinput=450.0, Thot=450.0),
            C.Square("duct", "HT9", Tinput=25.0, Thot=450.0, widthOuter=10.0, widthInner=9.5, mult=1.0),
        ):
            b.add(c)
    elif which == "cartshield":
        b = _new_block("cart", name, height)
        for c in (
            C.SolidRectangle("shield", "HT9", Tinput=25.0, Thot=400.0, lengthOuter=4.0, widthOuter=3.0, mult=2.0),
            C.DerivedShape("coolant", "Sodium", Tinput=450.0, Thot=450.0),
            C.Square("duct", "HT9", Tinput=25.0, Thot=450.0, widthOuter=10.0, widthInner=9.5, mult=1.0),
        ):
            b.add(c)
    else:
        raise ValueError(which)
    return b


ASSEMBLIES = {
    "hex3": ("hex", [("hexfuel", 12.5, "fuel"), ("hexfuel", 20.0, "fuel"), ("hexplenum", 30.0, "plenum")]),
    "hex2": ("hex", [("hexcontrol", 15.0, "control"), ("hexplenum", 10.0, "plenum")]),
    "cart2": ("cart", [("cartoxide", 25.0, "fuel"), ("cartshield", 10.0, "shield")]),
}


def _direct_assembly(which):
    from armi.reactor import assemblies, grids

    geom, stack = ASSEMBLIES[which]
    a = (assemblies.HexAssembly if geom == "hex" else assemblies.CartesianAssembly)("fuel", assemNum=7)
    a.spatialGrid = grids.AxialGrid.fromNCells(len(stack))
    a.spatialGrid.armiObject = a
    for w, h, name in stack:
        a.add(_rich_block(w, h, name))
    a.calculateZCoords()
    return a


def _core_spec(init):
    from mcverif import build

    if init.get("geom") == "cart":
        return build.cart_spec(n=2, quarter=True, through_center=True)
    return build.hex_spec(rings=init.get("rings", 3), bond=bool(init.get("bond")))


def build_state(init):
    """Real objects for ``init``; never cached across executions."""
    import random

    random.seed(12345)
    s = State()
    s.init = init
    s.detached = []  # assemblies taken out of the core by removeAssembly (still objects of the model)
    k = init["kind"]
    if k == "block":
        s.root = _table_block(init)
    elif k == "rich":
        s.root = _rich_block(init["which"])
    elif k == "assembly":
        if init["which"] == "blueprint":
            from mcverif import build

            s.root, s.keep = build.assembly(build.hex_spec(rings=2, nblocks=3, bond=True), "igniter fuel")
        else:
            s.root = _direct_assembly(init["which"])
    elif k == "core":
        from mcverif import build

        s.reactor = build.reactor(_core_spec(init))
        s.root = s.reactor.core
    else:
        raise ValueError(k)
    if init.get("detailed"):
        import numpy as np

        for c in _leaves_real(s.root):
            c.p.detailedNDens = np.array([1.0, 0.5, 0.25])
    return s


def sym_factor(s, b):
    """Symmetry factor implied by the CURRENT position of the block's assembly (independent of
    getSymmetryFactor): in a third-core periodic hex model the centre assembly is cut in three;
    without the upper edge assemblies every other assembly is whole (blocks.py documents exactly
    this).  Quarter Cartesian core through the centre assembly: the centre cell is cut in four, the
    cells on the two axes in two.  An assembly that is not in a core is whole."""
    if s.init["kind"] != "core":
        return 1.0
    a = b.parent
    if a is None or a.parent is not s.root:
        return 1.0
    i, j = int(a.spatialLocator.i), int(a.spatialLocator.j)
    if s.init.get("geom") == "cart":
        return 4.0 if (i, j) == (0, 0) else (2.0 if (i == 0 or j == 0) else 1.0)
    return 3.0 if (i, j) == (0, 0) else 1.0


def _leaves_real(o):
    from armi.reactor.components import Component

    if isinstance(o, Component):
        yield o
    else:
        for c in o:
            for x in _leaves_real(c):
                yield x


def obj_at(root, path):
    o = root
    for i in path:
        o = o[i]
    return o


# ---------------------------------------------------------------------------------------------
# closed-form component volumes (independent of getArea/getVolume)


def _hot(c, n):
    return float(c.getDimension(n))


def comp_area(c):
    """Closed-form hot cross-section area x multiplicity; None for DerivedShape."""
    t = type(c).__name__
    m = _hot(c, "mult") if t != "DerivedShape" else None
    if t == "Circle":
        return m * math.pi / 4.0 * (_hot(c, "od") ** 2 - _hot(c, "id") ** 2)
    if t == "Hexagon":
        return m * math.sqrt(3.0) / 2.0 * (_hot(c, "op") ** 2 - _hot(c, "ip") ** 2)
    if t == "Rectangle":
        return m * (_hot(c, "lengthOuter") * _hot(c, "widthOuter") - _hot(c, "lengthInner") * _hot(c, "widthInner"))
    if t == "SolidRectangle":
        return m * _hot(c, "lengthOuter") * _hot(c, "widthOuter")
    if t == "Square":
        return m * (_hot(c, "widthOuter") ** 2 - _hot(c, "widthInner") ** 2)
    if t == "Triangle":
        return m * 0.5 * _hot(c, "base") * _hot(c, "height")
    if t == "HoledHexagon":
        return m * (math.sqrt(3.0) / 2.0 * _hot(c, "op") ** 2 - _hot(c, "nHoles") * math.pi / 4.0 * _hot(c, "holeOD") ** 2)
    if t == "HexHoledCircle":
        return m * (math.pi / 4.0 * _hot(c, "od") ** 2 - math.sqrt(3.0) / 2.0 * _hot(c, "holeOP") ** 2)
    if t == "HoledRectangle":
        return m * (_hot(c, "lengthOuter") * _hot(c, "widthOuter") - math.pi / 4.0 * _hot(c, "holeOD") ** 2)
    if t == "HoledSquare":
        return m * (_hot(c, "widthOuter") ** 2 - math.pi / 4.0 * _hot(c, "holeOD") ** 2)
    if t == "Helix":
        ap, hd = _hot(c, "axialPitch"), _hot(c, "helixDiameter")
        return m * math.pi / 4.0 * (_hot(c, "od") ** 2 - _hot(c, "id") ** 2) * math.sqrt((math.pi * hd) ** 2 + ap**2) / ap
    if t == "DerivedShape":
        return None
    raise ValueError("no closed-form area for %s" % t)


def block_max_area(b):
    """Area of the lattice cell: the largest hexagon (hex block) / rectangle (Cartesian block)."""
    from armi.reactor import blocks, components

    if isinstance(b, blocks.HexBlock):
        ops = [_hot(c, "op") for c in b if isinstance(c, components.Hexagon)]
        return math.sqrt(3.0) / 2.0 * max(ops) ** 2
    best = 0.0
    for c in b:
        if isinstance(c, components.Rectangle):
            w = _hot(c, "widthOuter")
            l = _hot(c, "lengthOuter") if "lengthOuter" in c.DIMENSION_NAMES else w
            best = max(best, w * l)
    return best


# ---------------------------------------------------------------------------------------------
# snapshot of the real state as a model tree


def _lvl(o):
    from armi.reactor import assemblies, blocks, reactors
    from armi.reactor.components import Component

    if isinstance(o, Component):
        return "component"
    if isinstance(o, blocks.Block):
        return "block"
    if isinstance(o, assemblies.Assembly):
        return "assembly"
    if isinstance(o, reactors.Core):
        return "core"
    raise ValueError(type(o))


def snap(s, o=None):
    o = s.root if o is None else o
    lvl = _lvl(o)
    if lvl == "block":
        sf = sym_factor(s, o)
        h = float(o.getHeight())
        kids = []
        areas = []
        for c in o:
            a = comp_area(c)
            areas.append(a)
        known = sum(a for a in areas if a is not None)
        for c, a in zip(o, areas):
            if a is None:
                a = block_max_area(o) - known
            det = c.p.detailedNDens
            kids.append(
                {
                    "lvl": "component",
                    "name": c.name,
                    "nd": {k: float(v) for k, v in c.getNumberDensities().items()},
                    "V": a * h,
                    "w": a * h / sf,
                    "sym": sf != 1.0,
                    "det": None if det is None else [float(x) for x in det],
                }
            )
        return {"lvl": "block", "name": o.getType(), "sf": sf, "h": h, "sym": sf != 1.0, "kids": kids}
    if lvl == "component":
        raise ValueError("component roots are not used")
    return {"lvl": lvl, "name": getattr(o, "name", lvl), "kids": [snap(s, c) for c in o]}


def canon(tree, M):
    """Complete state at 10 significant digits: per-component densities (with their key sets),
    volumes and detailedNDens.  ``expand`` returns its sha1 (the frontier can hold 10^5 states)."""
    out = []
    for p, l in M.leaves(tree):
        out.append([list(p), sorted((n, sig(v)) for n, v in l["nd"].items()), sig(l["V"]), sig(l["w"]), None if l["det"] is None else [sig(x) for x in l["det"]]])
    return out


# ---------------------------------------------------------------------------------------------
# model instance (trusted nuclide directory data)

_M = None


def model():
    global _M
    if _M is None:
        from armi.nucDirectory import nuclideBases
        from armi.utils import units

        _M = Model(lambda n: nuclideBases.byName[n].weight, units.MOLES_PER_CC_TO_ATOMS_PER_BARN_CM)
    return _M


# ---------------------------------------------------------------------------------------------
# alphabet

PREFER_ONE = ["U235", "B10", "NA", "FE", "O"]
PREFER_MULTI = ["FE", "NA", "U235", "CR"]
PREFER_SECOND = ["ZR", "U238", "CR", "C", "B11", "O"]
# every operation has a rank: 0 = offered in the initial state only, 1 = "deep" (also offered in
# states reached by rank>=1 operations), 2 = "key" (the handful extended in the expensive core
# states).  init["ranks"][d] is the minimum rank offered in states at depth d; the entry "stale"
# instead offers the staleness alphabet (parent-level edits of a nuclide held by only some children
# interleaved with geometry changes of descendants, see ``geometry_ops``).
STALE_BIT = 16


def _pick(cands, prefer):
    for p in prefer:
        if p in cands:
            return p
    return sorted(cands)[0] if cands else None


def roles(M, node):
    nucs = M.nucs(node)
    r = {}
    if node["lvl"] == "component":
        r["one"] = _pick(nucs, PREFER_ONE)
        r["multi"] = None
        r["second"] = _pick([n for n in nucs if n != r["one"]], PREFER_SECOND)
    else:
        cnt = {n: sum(1 for k in node["kids"] if n in M.nucs(k)) for n in nucs}
        r["one"] = _pick([n for n in nucs if cnt[n] == 1], PREFER_ONE)
        r["multi"] = _pick([n for n in nucs if cnt[n] >= 2], PREFER_MULTI)
        if r["one"] is None:
            r["one"] = _pick([n for n in nucs if n != r["multi"]], PREFER_ONE)
        r["second"] = _pick([n for n in nucs if n not in (r["one"], r["multi"])], PREFER_SECOND)
    r["absent"] = "PU239" if "PU239" not in nucs else "AM241"
    return r


def target_ops(M, tree, path, budget="full"):
    """Operations on the object at ``path``: list of (op, rank) simplest first.
    budget: 'full' | 'small' (fewer ops; used for the expensive core states)."""
    from armi.nucDirectory import nuclideBases

    node = M.at(tree, path)
    p = list(path)
    r = roles(M, node)
    one, multi, second, absent = r["one"], r["multi"], r["second"], r["absent"]
    ops = []

    def add(op, deep=False, small=True, key=False, stale=False):
        if budget == "small" and not small:
            return
        # rank 0 = initial state only, 1 = deep, 2 = key; STALE_BIT marks the "staleness" alphabet
        ops.append((op, (2 if key else (1 if deep else 0)) + (STALE_BIT if stale else 0)))

    if one:
        add(["setND", p, one, ["mul", 2.0]], small=False)
        add(["setND", p, one, ["mul", 0.5]], key=True, stale=not path and node["lvl"] in ("assembly", "core"))
        add(["setND", p, one, ["abs", 0.0]], deep=True)
        add(["setND", p, one, ["abs", TRACE]], small=False)
    if multi:
        add(["setND", p, multi, ["mul", 2.0]], deep=True)
        add(["setND", p, multi, ["abs", 0.0]], small=False)
    add(["setND", p, absent, ["abs", 1.0e-3]], deep=node["lvl"] == "component")
    add(["setND", p, absent, ["abs", 0.0]], small=False)
    add(["scale", p, 2.0], key=True)
    add(["scale", p, 0.5], small=False)
    if one:
        add(["setMass", p, one, ["abs", 100.0]], key=True, stale=not path and node["lvl"] in ("assembly", "core"))
        add(["setMass", p, one, ["mulmass", 2.0]], small=False)
        add(["addMass", p, one, ["mulmass", 0.5]])
        add(["removeMass", p, one, ["mulmass", 0.5]], deep=True)
        add(["removeMass", p, one, ["mulmass", 1.0]], small=False)
    if multi:
        add(["setMass", p, multi, ["abs", 50.0]], small=False)
        add(["addMass", p, multi, ["mulmass", 0.5]], deep=True)
    add(["setMass", p, absent, ["abs", 10.0]], small=False)
    add(["addMass", p, absent, ["abs", 10.0]], small=False)
    if one and (multi or second):
        oth = multi or second
        add(["updNDs", p, {"mul": {one: 2.0, oth: 0.5}}], deep=True)
        add(["addMasses", p, {one: ["mulmass", 0.5], oth: ["mulmass", 0.25]}], small=False)
        add(["setMasses", p, {one: ["abs", 100.0], oth: ["abs", 50.0]}], small=False)
        add(["setMassFracs", p, {one: 0.15, oth: 0.25}], small=False)
    add(["updNDs", p, {"abs": {absent: 1.0e-4}}], small=False)
    if one:
        add(["setNDs", p, {"mul": 0.5}], small=False)
        add(["setNDs", p, {"only": [one], "mul": 2.0}], deep=True)
        add(["setMassFrac", p, one, 0.2], key=True)
        add(["setMassFrac", p, one, 0.0], small=False)
        add(["adjustMassFrac", p, {"nuclideToAdjust": one, "val": 0.3}], deep=True)
        el = nuclideBases.byName[one].element.symbol
        add(["adjustMassFrac", p, {"elementToAdjust": el, "val": 0.25}], small=False)
        if second or multi:
            add(["adjustMassFrac", p, {"nuclideToAdjust": one, "nuclideToHoldConstant": second or multi, "val": 0.1}], small=False)
    add(["clear", p], deep=True)
    if node["lvl"] == "component":
        # empty the component completely (solids, fluids and void all occur among the component targets)
        add(["setNDs", p, {"empty": True}], deep=True)
    if node["lvl"] == "component" and one and len(path) >= 1:
        sib = M.at(tree, path[:-1])["kids"]
        other = (path[-1] + 1) % len(sib)
        add(["shareNDs", p, other, 0.5], small=False)
    if node["lvl"] == "block":
        add(["setHeight", p, 1.25, False], deep=True)
        add(["setHeight", p, 0.8, True], small=False)
    return ops


def geometry_ops(s, tree, M):
    """Operations that change the volume weights a parent uses (the "staleness" alphabet together
    with the parent-level edits tagged stale in ``target_ops``): for every query that sums or
    weights over children there must be an operation between two uses that changes the weights.
    Only offered where there is a level above the block (assembly and core initial states)."""
    k = s.init["kind"]
    if k not in ("assembly", "core"):
        return []
    ops = []
    if k == "assembly":
        blocks = [(0,), (len(tree["kids"]) - 1,)]
    else:
        sfs = [a["kids"][0]["sf"] for a in tree["kids"]]
        blocks = [(sfs.index(max(sfs)), 0), (sfs.index(1.0), 0)]
    for i, bp in enumerate(blocks):
        if k == "assembly" or i == 0:
            ops.append((["setHeight", list(bp), 1.25, False], STALE_BIT))
        if k == "assembly" or i == 1:
            ops.append((["setHeight", list(bp), 0.8, True], STALE_BIT))
    cp = list(blocks[-1]) + [0] if k == "core" else [0, 0]
    ops.append((["setDim", cp, 0.95], STALE_BIT))
    ops.append((["setTemp", cp, 100.0], STALE_BIT))
    if k == "core":
        # placement: an assembly taken out of / put into / moved within a symmetric core changes its
        # symmetry factor (offered beyond the initial state only in the hex core: cost)
        tag = STALE_BIT if s.init.get("geom") != "cart" else 0
        for bp in blocks:
            ops.append((["removeAssembly", [bp[0]]], tag))
        ops.append((["addDetached", [], "centre"], tag))
        ops.append((["addDetached", [], "outer"], tag))
        ops.append((["moveAssembly", [blocks[0][0]], "outer"], tag))
    if k == "assembly":
        ops.append((["removeBlock", [], -1], STALE_BIT))
        if s.init.get("which") != "blueprint":
            # the added block is constructor-built (natural-element nuclides): adding it to the
            # blueprint assembly (isotopic nuclides) would mix both forms of one element
            ops.append((["addBlock", [], 17.0], STALE_BIT))
    # the target-level setHeight ops already exist for block targets: drop duplicates
    return ops


def targets(s, tree, M):
    """(path, budget) of the objects operations are applied to."""
    k = s.init["kind"]
    if k in ("block", "rich"):
        t = [((), "full"), ((0,), "full")]
        if k == "rich":
            t.append(((1,), "small"))
        return t
    if k == "assembly":
        return [((), "full"), ((0,), "full"), ((0, 0), "small")]
    # core: the centre assembly (symmetry factor 3 / 4) and one whole interior assembly; in the
    # Cartesian quarter core also a component of an assembly on an axis (factor 2)
    sfs = [a["kids"][0]["sf"] for a in tree["kids"]]
    ic = sfs.index(max(sfs))
    io = sfs.index(1.0)
    t = [((), "full"), ((ic,), "small"), ((ic, 0), "small"), ((ic, 0, 0), "small"), ((io,), "small")]
    if 2.0 in sfs:
        t.append(((sfs.index(2.0), 1, 0), "small"))
    return t


def alphabet(s, tree, M):
    """All (op, rank) of the initial state, simplest first."""
    out = []
    for path, budget in targets(s, tree, M):
        out += target_ops(M, tree, path, budget=budget)
    have = {_opkey(op): i for i, (op, _r) in enumerate(out)}
    for op, rk in geometry_ops(s, tree, M):
        i = have.get(_opkey(op))
        if i is None:
            out.append((op, rk))
        else:
            out[i] = (op, out[i][1] % STALE_BIT + STALE_BIT)
    return out


def _offered(rk, R):
    """Is an operation of rank/tag ``rk`` offered under policy entry ``R`` (int minimum rank or "stale")?"""
    if R == "stale":
        return rk >= STALE_BIT
    return rk % STALE_BIT >= R


# ---------------------------------------------------------------------------------------------
# applying one operation: model prediction, real call, transition oracles

# class keys name the mechanism: thin wrappers share the key of the method they delegate to
# (removeMass = addMass(-m), addMasses loops addMass, setMasses = clear + setMass, setMassFrac =
# setMassFracs); an exception escaping a composite-level setter is keyed by "composite" (the code
# is ArmiObject's, shared by block, assembly and core); refusals of the three mass-fraction
# setters share one key (all refuse through setMassFracs' zero-density test).
KEYNAME = {"removeMass": "addMass", "addMasses": "addMass", "setMasses": "setMass", "setMassFracs": "setMassFrac"}
MASSFRAC_OPS = ("setMassFrac", "setMassFracs", "adjustMassFrac")
REST_MIN = 1e-30  # mass fraction below which the unlisted nuclides count as absent (trace level)
CONTRACT = {"ValueError"}  # documented refusals: nuclide held by no child; zero density in setMassFracs
MASS_OPS = ("addMass", "removeMass", "setMass", "addMasses", "setMasses")


def _resolve(M, node, n, spec):
    kind, x = spec
    if kind == "abs":
        return float(x)
    if kind == "mul":
        return float(x) * M.N(node, n)
    if kind == "mulmass":
        return float(x) * M.mass(node, [n])
    raise ValueError(kind)


def concrete_args(M, pre, op):
    """Turn the symbolic value specs of ``op`` into numbers using the pre-state (model)."""
    name, path = op[0], tuple(op[1])
    T = M.at(pre, path)
    if name == "setND":
        return {"n": op[2], "v": _resolve(M, T, op[2], op[3])}
    if name in ("addMass", "removeMass", "setMass"):
        return {"n": op[2], "m": _resolve(M, T, op[2], op[3])}
    if name in ("addMasses", "setMasses"):
        return {"d": {n: _resolve(M, T, n, sp) for n, sp in op[2].items()}}
    if name == "updNDs":
        d = {n: f * M.N(T, n) for n, f in op[2].get("mul", {}).items()}
        d.update({n: float(v) for n, v in op[2].get("abs", {}).items()})
        return {"d": d}
    if name == "setNDs":
        if op[2].get("empty"):
            return {"d": {}}  # boundary value: the empty container (no keys), not zeros with keys kept
        ns = op[2].get("only") or M.nucs(T)
        return {"d": {n: op[2]["mul"] * M.N(T, n) for n in ns}}
    if name == "shareNDs":
        d = {n: op[3] * M.N(T, n) for n in M.nucs(T)}
        d2 = {n: 3.0 * v for n, v in list(d.items())[:2]}
        d2["XE135"] = 1.0e-4
        return {"d": d, "d2": d2, "other": int(op[2])}
    if name == "scale":
        return {"f": float(op[2])}
    if name == "setMassFrac":
        return {"d": {op[2]: float(op[3])}}
    if name == "setMassFracs":
        return {"d": {n: float(v) for n, v in op[2].items()}}
    if name == "adjustMassFrac":
        return {"kw": dict(op[2])}
    if name == "clear":
        return {}
    if name == "setHeight":
        return {"f": float(op[2]), "conserve": bool(op[3])}
    if name in ("setDim", "setTemp", "addBlock"):
        return {"x": float(op[2])}
    if name == "removeBlock":
        return {"i": int(op[2])}
    if name == "removeAssembly":
        return {}
    if name in ("addDetached", "moveAssembly"):
        return {"where": op[2]}
    raise ValueError(name)


def model_apply(M, pre, op, a):
    """Predicted tree (deep copy of ``pre`` mutated) or Refusal."""
    t = M.clone(pre)
    name, path = op[0], tuple(op[1])
    T = M.at(t, path)
    if name == "setND":
        M.setND(T, a["n"], a["v"])
    elif name == "addMass":
        M.addMass(T, a["n"], a["m"])
    elif name == "removeMass":
        M.addMass(T, a["n"], -a["m"])
    elif name == "setMass":
        M.setMass(T, a["n"], a["m"])
    elif name == "addMasses":
        M.addMasses(T, a["d"])
    elif name == "setMasses":
        M.setMasses(T, a["d"])
    elif name == "updNDs":
        M.updNDs(T, a["d"])
    elif name == "setNDs":
        M.setNDs(T, a["d"])
    elif name == "shareNDs":
        M.setNDs(T, a["d"])
        M.setNDs(M.at(t, path[:-1] + (a["other"],)), a["d2"])
    elif name == "scale":
        M.scale(T, a["f"])
    elif name in ("setMassFrac", "setMassFracs"):
        M.setMassFracs(T, a["d"])
    elif name == "adjustMassFrac":
        adj, const = _adjust_sets(M, T, a["kw"])
        if not adj and a["kw"]["val"]:
            # none of the nuclides to adjust exists here: adjustMassFrac's own consistency test
            # refuses ("Failed to adjust mass fraction")
            raise Refusal("RuntimeError")
        new, _old, _a, _c = M.adjusted_fracs(T, adj, const, a["kw"]["val"])
        M.setMassFracs(T, new)
    elif name == "clear":
        M.clear(T)
    elif name == "setHeight":
        M.setHeight(T, a["f"], a["conserve"])
    else:
        raise ValueError(name)
    return t


def _element_nuclides(sym):
    """All nuclide names (natural and isotopic) of an element symbol: trusted directory data."""
    from armi.nucDirectory import elements

    return [nb.name for nb in elements.bySymbol[sym].nuclides]


def _adjust_sets(M, T, kw):
    here = set(M.nucs(T))
    adj = set()
    if kw.get("nuclideToAdjust"):
        adj.add(kw["nuclideToAdjust"])
    elif kw.get("elementToAdjust"):
        adj |= set(_element_nuclides(kw["elementToAdjust"]))
    const = set()
    if kw.get("nuclideToHoldConstant"):
        const.add(kw["nuclideToHoldConstant"])
    elif kw.get("elementToHoldConstant"):
        const |= set(_element_nuclides(kw["elementToHoldConstant"]))
    return adj & here, const & here


def real_apply(obj, op, a):
    name = op[0]
    if name == "setND":
        obj.setNumberDensity(a["n"], a["v"])
    elif name == "addMass":
        obj.addMass(a["n"], a["m"])
    elif name == "removeMass":
        obj.removeMass(a["n"], a["m"])
    elif name == "setMass":
        obj.setMass(a["n"], a["m"])
    elif name == "addMasses":
        arg = dict(a["d"])
        obj.addMasses(arg)
        return arg
    elif name == "setMasses":
        arg = dict(a["d"])
        obj.setMasses(arg)
        return arg
    elif name == "updNDs":
        arg = dict(a["d"])
        obj.updateNumberDensities(arg)
        return arg
    elif name == "setNDs":
        arg = dict(a["d"])
        obj.setNumberDensities(arg)
        return arg
    elif name == "shareNDs":
        # ONE dict object handed to two different components, modified by the caller in between
        arg = dict(a["d"])
        obj.setNumberDensities(arg)
        arg.clear()
        arg.update(a["d2"])
        obj_at(obj.parent, [a["other"]]).setNumberDensities(arg)
        return arg
    elif name == "scale":
        obj.changeNDensByFactor(a["f"])
    elif name == "setMassFrac":
        ((n, v),) = a["d"].items()
        obj.setMassFrac(n, v)
    elif name == "setMassFracs":
        arg = dict(a["d"])
        obj.setMassFracs(arg)
        return arg
    elif name == "adjustMassFrac":
        obj.adjustMassFrac(**a["kw"])
    elif name == "clear":
        obj.clearNumberDensities()
    elif name == "setHeight":
        if a["conserve"]:
            obj.setHeight(obj.getHeight() * a["f"], conserveMass=True, adjustList=sorted(obj.getNuclides()))
        else:
            obj.setHeight(obj.getHeight() * a["f"])
    elif name == "setDim":
        key = [d for d in ("od", "op", "widthOuter", "base") if d in obj.DIMENSION_NAMES][0]
        obj.setDimension(key, obj.getDimension(key, cold=True) * a["x"])
    elif name == "setTemp":
        obj.setTemperature(obj.temperatureInC + a["x"])
    elif name == "removeBlock":
        obj.remove(obj[a["i"]])
    elif name == "addBlock":
        from armi.reactor import blocks

        obj.add(_rich_block("hexplenum" if isinstance(obj[0], blocks.HexBlock) else "cartshield", a["x"], "plenum"))
    else:
        raise ValueError(name)


def lvl_tag(node, sym=True):
    """level part of a class key; '-symcut' marks objects of a block cut by symmetry lines, for the
    oracles the symmetry factor enters (volumes, masses, atoms)."""
    return node["lvl"] + ("-symcut" if sym and node.get("sym") else "")


def step(s, M, pre, op, check, case):
    """Apply ``op`` to the real state. Returns (outcome, post tree, violations)."""
    vs = []
    name, path = op[0], tuple(op[1])
    try:
        Tpre = M.at(pre, path)
    except IndexError:
        return "refused:NoTarget", pre, vs  # the addressed block was removed earlier in this history
    if name == "removeBlock" and len(Tpre["kids"]) <= 1:
        return "refused:NoTarget", pre, vs  # an assembly without blocks has no volume to account for
    if name in GEOMETRY_OPS:
        return _geometry_step(s, M, pre, op, check, case)
    a = concrete_args(M, pre, op)
    obj = obj_at(s.root, path)
    tag = lvl_tag(Tpre)
    ltag = lvl_tag(Tpre, sym=False)
    ctag = "component" if Tpre["lvl"] == "component" else "composite"
    kname = KEYNAME.get(name, name)
    rname = "massfrac" if name in MASSFRAC_OPS else kname

    def bad(key, msg):
        vs.append(core.viol("c02/" + key, "%s after %s: %s" % (_where(s, path), _opstr(op, a), msg), case))

    if name in MASSFRAC_OPS and Tpre["lvl"] == "component" and not Tpre["nd"]:
        # A component WITHOUT nuclides reports its material's density by design ("no nuclides in
        # this component yet ... defer to Material"), so assigning mass fractions to it populates it
        # from the material: material densities are outside this model (C03/C19).  The operation is
        # executed, no transition oracle; the state invariants judge the result.
        try:
            real_apply(obj, op, a)
            out = "ok"
        except (ValueError, RuntimeError) as e:
            out = "refused:" + type(e).__name__
        except Exception as e:  # noqa: BLE001
            out = "raised:" + type(e).__name__
            bad("exception-%s-%s-%s" % (kname, ctag, type(e).__name__), "unexpected %r" % (e,))
        return out, snap(s), vs
    try:
        pred = model_apply(M, pre, op, a)
        want_out = "ok"
    except Refusal as e:
        pred = pre
        want_out = "refused:" + e.exc
    arg = None
    try:
        arg = real_apply(obj, op, a)
        out = "ok"
    except Exception as e:  # noqa: BLE001 - classified below
        legit = type(e).__name__ in CONTRACT or want_out == "refused:" + type(e).__name__
        out = ("refused:" if legit else "raised:") + type(e).__name__
        exc = e
    post = snap(s)
    if check and out == "ok" and isinstance(arg, dict):
        # argument aliasing: what the caller does to its own container after the call must not
        # reach the model (change a value, add a key, empty it)
        for k0 in list(arg)[:1]:
            arg[k0] = 7.0 * (arg[k0] or 1.0) if isinstance(arg[k0], float) else 7.0
        arg["XE135"] = 1.0e-3
        again = snap(s)
        arg.clear()
        again2 = snap(s)
        for t2 in (again, again2):
            d = _leafdiff(M, post, t2, (), exact=True)
            if d:
                vs.append(core.viol("c02/argument-aliased-%s-%s" % (KEYNAME.get(name, name), lvl_tag(Tpre, sym=False)), "%s after %s: the caller then modified its own argument dict and the model changed: %s" % (_where(s, path), _opstr(op, a), d[:2]), case))
                return out, again2, vs  # the probe has altered the state: report this alone, from the state as it is now
    if not check:
        return out, post, vs
    if out != "ok":
        if not out.startswith("refused:"):
            bad("exception-%s-%s-%s" % (kname, ctag, type(exc).__name__), "unexpected %r" % (exc,))
        elif want_out == "ok":
            bad("refusal-unexpected-%s-%s" % (rname, ltag), "raised %r although the request is well defined" % (exc,))
        elif _leafdiff(M, pre, post, ()):
            bad("refusal-changed-state-%s-%s" % (rname, ltag), "refused with %s but densities changed: %s" % (type(exc).__name__, _leafdiff(M, pre, post, ())[:2]))
        return out, post, vs
    if want_out != "ok":
        bad("refusal-missing-%s-%s" % (rname, ltag), "accepted, but no child holds the nuclide / the density is zero (documented ValueError)")
        return out, post, vs

    n0 = len(vs)
    Tpost = M.at(post, path)
    # frame condition: nothing outside the target's subtree changes (shareNDs addresses two siblings)
    scope = path[:-1] if name == "shareNDs" else path
    for p, l in M.leaves(post):
        if p[: len(scope)] != scope:
            l0 = M.at(pre, p)
            if l0["nd"] != l["nd"]:
                bad("frame-%s-%s" % (kname, tag), "component %s outside the edited object changed: %s" % (list(p), _dictdiff(l0["nd"], l["nd"])[:2]))
                break
    vs += _readback(s, M, obj, op, a, Tpre, Tpost, pre, tag, case)
    if len(vs) == n0:
        # the homogenised values are right; is the distribution over components the documented one?
        # add/remove mass: N + dN cancels, so the comparison is relative to the operands (the previous value)
        d = _leafdiff(M, pred, post, scope, scale=pre if name in ("addMass", "removeMass", "addMasses") else None)
        if d:
            bad("distribution-%s-%s" % (kname, tag), "per-component densities differ from the documented de-homogenisation: %s" % d[:3])
    return out, post, vs


GEOMETRY_OPS = ("setDim", "setTemp", "removeBlock", "addBlock", "removeAssembly", "addDetached", "moveAssembly")


def _place(s, where):
    g = s.root.spatialGrid
    if where == "centre":
        return g[0, 0, 0]
    return g[2, 2, 0] if s.init.get("geom") == "cart" else g[3, 0, 0]


def _placement(s, obj, op, a):
    name = op[0]
    if name == "removeAssembly":
        s.root.removeAssembly(obj, discharge=False)
        s.detached.append(obj)
    elif name == "addDetached":
        s.root.add(s.detached.pop(0), _place(s, a["where"]))
    else:
        obj.moveTo(_place(s, a["where"]))


def _geometry_step(s, M, pre, op, check, case):
    """A change of geometry below the level whose accounting is observed.  No density prediction
    (thermal expansion is C03's subject): the oracle is the state invariants evaluated afterwards
    with the CURRENT volumes, plus: densities of every other component are untouched, and a
    temperature change scales all nuclides of the component by one common factor."""
    vs = []
    name, path = op[0], tuple(op[1])
    a = concrete_args(M, pre, op)
    obj = obj_at(s.root, path)
    if name in ("addDetached", "moveAssembly"):
        if (name == "addDetached" and not s.detached) or s.root.childrenByLocator.get(_place(s, a["where"])) is not None:
            return "refused:NoTarget", pre, vs  # nothing to add / the location is occupied: outside the alphabet
    if name == "removeAssembly" and len(pre["kids"]) <= 2:
        return "refused:NoTarget", pre, vs
    try:
        if name in ("removeAssembly", "addDetached", "moveAssembly"):
            _placement(s, obj, op, a)
        else:
            real_apply(obj, op, a)
        out = "ok"
    except Exception as e:  # noqa: BLE001
        out = "raised:" + type(e).__name__
        vs.append(core.viol("c02/exception-%s-%s" % (name, type(e).__name__), "%s after %s: unexpected %r" % (_where(s, path), _opstr(op, a), e), case))
    post = snap(s)
    if not check or out != "ok":
        return out, post, vs
    if name in ("setDim", "setTemp"):
        for p, l in M.leaves(post):
            l0 = M.at(pre, p)
            if p != path and l0["nd"] != l["nd"]:
                vs.append(core.viol("c02/frame-%s" % name, "%s after %s: component %s changed: %s" % (_where(s, path), _opstr(op, a), list(p), _dictdiff(l0["nd"], l["nd"])[:2]), case))
                break
        l0, l1 = M.at(pre, path)["nd"], M.at(post, path)["nd"]
        ratios = [l1.get(n, 0.0) / v for n, v in l0.items() if v]
        if set(l0) != set(l1) or (ratios and not all(close(r, ratios[0]) for r in ratios)) or (name == "setDim" and l0 != l1):
            vs.append(core.viol("c02/densities-%s" % name, "%s after %s: densities %s -> %s" % (_where(s, path), _opstr(op, a), dict(sorted(l0.items())[:3]), dict(sorted(l1.items())[:3])), case))
    elif name in ("removeAssembly", "addDetached", "moveAssembly"):
        pass  # the state invariants (root and detached assemblies) are the oracle
    else:
        before = [l["nd"] for _p, l in M.leaves(pre)]
        after = [l["nd"] for _p, l in M.leaves(post)]
        n = min(len(before), len(after)) if name == "addBlock" else len(after)
        if before[:n] != after[:n]:
            vs.append(core.viol("c02/frame-%s" % name, "%s after %s: densities of the other blocks changed" % (_where(s, path), _opstr(op, a)), case))
    return out, post, vs


def _where(s, path):
    o = obj_at(s.root, path)
    return "%s %s%s" % (_lvl(o), getattr(o, "name", ""), list(path))


def _opstr(op, a):
    return "%s(%s)" % (op[0], ", ".join("%s=%r" % kv for kv in sorted(a.items())))


def _dictdiff(a, b, scale=None, exact=False):
    out = []
    for k in sorted(set(a) | set(b)):
        if k not in a or k not in b:
            out.append("%s: %s" % (k, "only after" if k not in a else "only before"))
        elif (a[k] != b[k]) if exact else not close(a[k], b[k], scale=(scale or {}).get(k, 0.0)):
            out.append("%s: %r vs %r" % (k, a[k], b[k]))
    return out


def _leafdiff(M, t1, t2, path, scale=None, exact=False):
    """Differences (key sets, values beyond RTOL) between the leaves of two trees under ``path``.
    ``scale``: a third tree whose values give the magnitude the tolerance is relative to."""
    out = []
    for p, l1 in M.leaves(M.at(t1, path), tuple(path)):
        l2 = M.at(t2, p)
        for x in _dictdiff(l1["nd"], l2["nd"], None if scale is None else M.at(scale, p)["nd"], exact):
            out.append("%s %s: %s" % (l1["name"], list(p), x))
        if (l1.get("det") is None) != (l2.get("det") is None) or (l1.get("det") is not None and not all(close(x, y) for x, y in zip(l1["det"], l2["det"]))):
            out.append("%s %s: detailedNDens %s vs %s" % (l1["name"], list(p), l1.get("det"), l2.get("det")))
    return out


def _readback(s, M, obj, op, a, Tpre, Tpost, pre, tag, case):
    """Statement-level oracles with the REAL getters of the edited object after the operation."""
    vs = []
    name, path = op[0], tuple(op[1])

    def bad(key, msg):
        vs.append(core.viol("c02/" + key, "%s after %s: %s" % (_where(s, path), _opstr(op, a), msg), case))

    preN = M.Ns(Tpre)
    kname = KEYNAME.get(name, name)

    def others_unchanged(listed):
        got = obj.getNumberDensities()
        for n, v in preN.items():
            if n in listed:
                continue
            if not close(got.get(n, 0.0), v):
                bad("others-changed-%s-%s" % (kname, tag), "nuclide %s was not addressed but its density went %r -> %r" % (n, v, got.get(n, 0.0)))
                return

    if name == "setND":
        got = obj.getNumberDensity(a["n"])
        if not close(got, a["v"]):
            bad("readback-setND-%s" % tag, "getNumberDensity(%s) reads %r, requested %r" % (a["n"], got, a["v"]))
        others_unchanged({a["n"]})
    elif name in ("updNDs", "setNDs"):
        for n, v in a["d"].items():
            got = obj.getNumberDensity(n)
            if not close(got, v):
                bad("readback-%s-%s" % (name, tag), "getNumberDensity(%s) reads %r, requested %r" % (n, got, v))
                break
        if name == "updNDs":
            others_unchanged(set(a["d"]))
        else:
            for n in preN:
                if n not in a["d"] and obj.getNumberDensity(n) != 0.0:
                    bad("readback-setNDs-unlisted-%s" % tag, "unlisted nuclide %s reads %r, expected 0" % (n, obj.getNumberDensity(n)))
                    break
    elif name == "scale":
        got = obj.getNumberDensities()
        for n, v in preN.items():
            if not close(got.get(n, 0.0), v * a["f"]):
                bad("readback-scale-%s" % tag, "nuclide %s reads %r, expected %r x %r" % (n, got.get(n, 0.0), v, a["f"]))
                break
        if Tpre["lvl"] == "component" and Tpre.get("det") is not None:
            det = [float(x) for x in obj.p.detailedNDens]
            if not all(close(x, y * a["f"]) for x, y in zip(det, Tpre["det"])):
                bad("scale-detailedNDens-%s" % tag, "detailedNDens %s, expected %s x %r" % (det, Tpre["det"], a["f"]))
    elif name in ("addMass", "removeMass", "setMass"):
        m0 = M.mass(Tpre, [a["n"]])
        want = a["m"] if name == "setMass" else (m0 + a["m"] if name == "addMass" else m0 - a["m"])
        got = obj.getMass(a["n"])
        if not close(got, want, scale=max(abs(m0), abs(a["m"]))):
            bad("readback-%s-%s" % (kname, tag), "getMass(%s) reads %r g, expected %r g (before: %r g, argument %r g)" % (a["n"], got, want, m0, a["m"]))
        others_unchanged({a["n"]})
    elif name in ("addMasses", "setMasses"):
        for n, m in a["d"].items():
            m0 = M.mass(Tpre, [n])
            want = m if name == "setMasses" else m0 + m
            got = obj.getMass(n)
            if not close(got, want, scale=max(abs(m0), abs(m))):
                bad("readback-%s-%s" % (kname, tag), "getMass(%s) reads %r g, expected %r g" % (n, got, want))
                break
        if name == "addMasses":
            others_unchanged(set(a["d"]))
    elif name == "clear":
        got = obj.getNumberDensities()
        for n in preN:
            if not close(got.get(n, -1.0), TRACE):
                bad("readback-clear-%s" % tag, "nuclide %s reads %r after clearNumberDensities, expected the trace density %r" % (n, got.get(n), TRACE))
                break
    elif name in ("setMassFrac", "setMassFracs", "adjustMassFrac"):
        old = M.massfracs(Tpre)
        rho0 = M.density(Tpre)
        if name == "adjustMassFrac":
            adj, const = _adjust_sets(M, Tpre, a["kw"])
            new, _o, adj, const = M.adjusted_fracs(Tpre, adj, const, a["kw"]["val"])
            listed = {n: new[n] for n in adj}
            keep = set(const)
        else:
            listed = dict(a["d"])
            keep = set()
        rest = {n: v for n, v in old.items() if n not in listed and n not in keep}
        # "remaining nuclides" must exist to absorb the difference.  Nuclides at trace level
        # (TRACE_NUMBER_DENSITY = 1e-50: "almost zero, so components remember which nuclides are
        # where") are absent by ARMI's own convention: a remainder whose mass fraction is below
        # REST_MIN cannot be asked to grow by 40 orders of magnitude.
        wellposed = sum(rest.values()) > REST_MIN or close(sum(listed.values()) + sum(old[n] for n in keep), 1.0)
        if not wellposed:
            return vs  # nothing can absorb the difference: the request has no solution, no oracle
        got = obj.getMassFracs()
        if name == "adjustMassFrac":
            tot = sum(got.get(n, 0.0) for n in adj)
            if not close(tot, a["kw"]["val"]):
                bad("readback-adjustMassFrac-%s" % tag, "mass fraction of %s reads %r, requested %r" % (sorted(adj), tot, a["kw"]["val"]))
            for n in keep:
                if not close(got.get(n, 0.0), old[n]):
                    bad("adjustMassFrac-held-%s" % tag, "mass fraction of %s was to be held at %r, reads %r" % (n, old[n], got.get(n, 0.0)))
                    break
        for n, v in listed.items():
            g = obj.getMassFrac(n)
            if not close(g, v) or not close(got.get(n, 0.0), v):
                bad("readback-%s-%s" % (kname, tag), "getMassFrac(%s) reads %r (getMassFracs: %r), requested %r" % (n, g, got.get(n, 0.0), v))
                break
        ratios = [(n, got.get(n, 0.0) / v) for n, v in rest.items() if v > 0]
        if ratios and not all(close(r, ratios[0][1]) for _n, r in ratios):
            bad("massfrac-proportions-%s-%s" % (kname, tag), "remaining nuclides did not keep their proportions: new/old ratios %s" % ratios[:4])
        rho = obj.density()
        if not close(rho, rho0):
            bad("massfrac-density-%s-%s" % (kname, tag), "density() went %r -> %r" % (rho0, rho))
    elif name == "setHeight":
        h = obj.getHeight()
        if not close(h, Tpre["h"] * a["f"]):
            bad("readback-setHeight-%s" % tag, "getHeight() reads %r, requested %r" % (h, Tpre["h"] * a["f"]))
        if a["conserve"]:
            for n in preN:
                m0, m1 = M.mass(Tpre, [n]), obj.getMass(n)
                if not close(m0, m1):
                    bad("setHeight-conserveMass-%s" % tag, "mass of %s went %r -> %r g" % (n, m0, m1))
                    break
        else:
            got = obj.getNumberDensities()
            for n, v in preN.items():
                if not close(got.get(n, 0.0), v):
                    bad("setHeight-density-%s" % tag, "density of %s went %r -> %r" % (n, v, got.get(n, 0.0)))
                    break
    return vs


# ---------------------------------------------------------------------------------------------
# invariants, evaluated in every reached state

FISSILE = ("U233", "U235", "PU239", "PU241")


def _selections(M, node, r):
    """Nuclide selections (statement: nuclide, element, list) with the reference nuclide sets."""
    from armi.nucDirectory import nuclideBases

    here = M.nucs(node)
    sels = [(None, list(here))]
    if r["one"]:
        sels.append((r["one"], [r["one"]]))
        el = nuclideBases.byName[r["one"]].element.symbol
        if el not in here or el == r["one"]:
            # element symbol: every nuclide of that element present here
            sels.append((el, [n for n in here if nuclideBases.byName[n].element.symbol == el]))
        lst = [r["one"]] + ([r["multi"]] if r["multi"] else []) + ([r["second"]] if r["second"] else [])
        sels.append((lst, lst))
    sels.append((r["absent"], []))
    return sels


def invariants(s, M, tree, case, full_paths=None, root=None, suffix=""):
    """Every public accounting query of every object against the model tree. A query that raises
    in a reachable state is itself a violation (key query-raises-<section>-<level>-<Exception>)."""
    vs = []
    seen = set()
    root = s.root if root is None else root

    def _where(_s, path):  # noqa: F811 - relative to the walked root
        o = obj_at(root, path)
        return "%s%s %s%s" % (_lvl(o), suffix, getattr(o, "name", ""), list(path))

    def bad(key, node, path, msg, sym=True):
        k = "c02/" + key + "-" + lvl_tag(node, sym) + suffix
        if k in seen:
            return
        seen.add(k)
        vs.append(core.viol(k, "%s: %s" % (_where(s, path), msg), case))

    def walk(o, node, path):
        lvl = node["lvl"]
        comp = lvl == "component"
        # every query on the objects an operation addressed, their ancestors and their children; the
        # cheap subset (volume, total mass, additivity, all homogenised densities) everywhere else
        tp = tuple(path)
        full = full_paths is None or any(tp == fp[: len(tp)] or (fp == tp[: len(fp)] and len(tp) - len(fp) <= 1) for fp in full_paths)
        # density()/getMassFracs()/getMasses() of a composite cost one tree traversal per nuclide:
        # on composites only for the addressed objects and their parents (and everywhere at depth 0)
        heavy = full_paths is None or comp or any(tp == fp[: len(tp)] and len(fp) - len(tp) <= 1 for fp in full_paths)
        here = M.nucs(node)
        mN = M.Ns(node)
        r = roles(M, node)
        probe = [n for n in (r["one"], r["multi"], r["second"]) if n]
        q = {}

        def section(label, fn):
            try:
                fn()
            except Exception as e:  # noqa: BLE001 - a raising query is reported, never a harness error
                bad("query-raises-%s-%s" % (label, type(e).__name__), node, path, "%s query raised %r (densities %s)" % (label, e, {n: mN[n] for n in sorted(mN)[:4]}), sym=False)

        def volume():
            v = q["v"] = o.getVolume()
            mv = M.vol(node)
            if not close(v, mv):
                q["vbad"] = True  # the queries that multiply by this volume would only repeat the finding
                bad("volume", node, path, "getVolume() = %r, closed-form geometry gives %r" % (v, mv))
            if lvl == "block":
                sv = sum(c.getVolume() for c in o) / node["sf"]
                if not close(v, sv):
                    bad("volume-additive", node, path, "getVolume() = %r, children sum / symmetry factor %r = %r" % (v, node["sf"], sv))
                ar = o.getArea() * o.getHeight()
                if not close(ar, v):
                    bad("area-height", node, path, "getArea() x getHeight() = %r, getVolume() = %r" % (ar, v))
            elif not comp:
                sv = sum(c.getVolume() for c in o)
                if not close(v, sv):
                    bad("volume-additive", node, path, "getVolume() = %r, sum over children %r" % (v, sv))

        def ndens():
            if set(o.getNuclides()) != set(here):
                bad("nuclides", node, path, "getNuclides() = %s, components hold %s" % (sorted(o.getNuclides()), sorted(here)))
            nds = q["nds"] = o.getNumberDensities()
            if set(nds) != set(mN):
                bad("ndens-keys", node, path, "getNumberDensities() keys %s vs %s" % (sorted(nds), sorted(mN)))
            for n, x in mN.items():
                if not close(nds.get(n, 0.0), x):
                    bad("ndens-homogenised", node, path, "getNumberDensities()[%s] = %r, sum N V / sum V = %r" % (n, nds.get(n), x))
                    break
            if full:
                lst = probe + [r["absent"]]
                for n in lst:
                    if not close(o.getNumberDensity(n), mN.get(n, 0.0)):
                        bad("ndens-homogenised", node, path, "getNumberDensity(%s) = %r, sum N V / sum V = %r" % (n, o.getNumberDensity(n), mN.get(n, 0.0)))
                got = list(o.getNuclideNumberDensities(lst))
                if not all(close(g, mN.get(n, 0.0)) for g, n in zip(got, lst)):
                    bad("ndens-homogenised", node, path, "getNuclideNumberDensities(%s) = %s, expected %s" % (lst, got, [mN.get(n, 0.0) for n in lst]))

        def mass():
            mtot = q["mtot"] = o.getMass()
            for sel, ref in _selections(M, node, r) if full else [(None, list(here))]:
                g = mtot if sel is None else o.getMass(sel)
                want = M.mass(node, ref)
                if not close(g, want):
                    bad("mass", node, path, "getMass(%r) = %r g, sum N V A / N_A over components = %r g" % (sel, g, want))
                if not comp:
                    add = sum(c.getMass(sel) for c in o)
                    if not close(g, add):
                        bad("mass-additive", node, path, "getMass(%r) = %r g, sum over children = %r g" % (sel, g, add))

        def density():
            rho = o.density()
            if here and not close(rho, M.density(node)):  # without nuclides a component defers to its material
                bad("density", node, path, "density() = %r, sum N A / N_A = %r (densities %s)" % (rho, M.density(node), {n: mN[n] for n in sorted(mN)[:4]}), sym=False)
            elif "v" in q and "mtot" in q and here and not q.get("vbad"):
                # mass = density x volume (a component counts volume / symmetry factor of its block: component.py getMass)
                rv = rho * q["v"] / (node["V"] / node["w"] if comp and node["w"] else 1.0)
                if not close(q["mtot"], rv):
                    bad("mass-density-volume", node, path, "getMass() = %r g, density() x getVolume()%s = %r g" % (q["mtot"], " / symmetry factor" if comp else "", rv))

        def masses():
            ms = o.getMasses()
            if "mtot" in q and not q.get("vbad") and not close(q["mtot"], sum(ms.values()), scale=max([abs(x) for x in ms.values()] or [0.0])):
                bad("getMasses-total", node, path, "getMass() = %r g, sum of getMasses() = %r g (%d nuclides)" % (q["mtot"], sum(ms.values()), len(ms)))
            for n in probe if not q.get("vbad") else []:
                gm = o.getMass(n)
                if not close(ms.get(n, 0.0), gm):
                    bad("getMasses", node, path, "getMasses()[%s] = %r g, getMass(%s) = %r g" % (n, ms.get(n), n, gm))
                    break
            if not comp:
                hm = [n for n in here if _is_hm(n)]
                if not close(o.getHMMass(), M.mass(node, hm)):
                    bad("mass-heavy-metal", node, path, "getHMMass() = %r, expected %r" % (o.getHMMass(), M.mass(node, hm)))
                fis = [n for n in here if n in FISSILE]
                if not close(o.getFissileMass(), M.mass(node, fis)):
                    bad("mass-fissile", node, path, "getFissileMass() = %r, expected %r" % (o.getFissileMass(), M.mass(node, fis)))

        def atoms():
            if comp or q.get("vbad"):
                return
            for n in probe[:2]:
                at = o.getNumberOfAtoms(n)
                want = M.atoms(node, n) * 1e24
                if not close(at, want):
                    bad("atoms", node, path, "getNumberOfAtoms(%s) = %r, sum N V over components = %r" % (n, at, want))
                add = sum(c.getNumberOfAtoms(n) for c in o)
                if not close(at, add):
                    bad("atoms-additive", node, path, "getNumberOfAtoms(%s) = %r, sum over children = %r" % (n, at, add))

        def massfracs():
            mf = o.getMassFracs()
            if M.mass(node) > 0:
                tot = sum(mf.values())
                if not close(tot, 1.0):
                    bad("massfracs-sum", node, path, "sum of getMassFracs() = %r" % tot)
                mmf = M.massfracs(node)
                for n in probe:
                    if not close(mf.get(n, 0.0), mmf[n]) or not close(o.getMassFrac(n), mmf[n]):
                        bad("massfracs", node, path, "mass fraction of %s reads %r / %r, mass ratio is %r" % (n, mf.get(n), o.getMassFrac(n), mmf[n]))
                        break

        def volfracs():
            if comp:
                return
            got = o.getVolumeFractions()
            vols = [M.vol(k) for k in node["kids"]]
            tot = sum(vols)
            if len(got) != len(vols) or not all(g[0] is c for g, c in zip(got, o)):
                bad("volume-fractions", node, path, "getVolumeFractions() lists %d children, the object has %d" % (len(got), len(vols)))
            elif tot and not all(close(g[1], v / tot) for g, v in zip(got, vols)):
                bad("volume-fractions", node, path, "getVolumeFractions() = %s, current child volumes give %s" % ([float(g[1]) for g in got][:4], [v / tot for v in vols][:4]))
            elif tot and node["kids"] and not close(o[0].getVolumeFraction(), vols[0] / tot):
                bad("volume-fractions", node, path, "child.getVolumeFraction() = %r, expected %r" % (o[0].getVolumeFraction(), vols[0] / tot))

        def getter_aliasing():
            # what a caller does to a returned container must not reach the model
            for gname in ("getNumberDensities", "getMasses", "getMassFracs", "getVolumeFractions"):
                if comp and gname == "getVolumeFractions":
                    continue
                g = getattr(o, gname)()
                ref = list(g) if isinstance(g, list) else dict(g)
                if isinstance(g, dict):
                    for k0 in list(g)[:1]:
                        g[k0] = 12345.0
                    g["XE135"] = 1.0
                else:
                    g.append(None)
                    del g[0]
                g2 = getattr(o, gname)()
                same = (len(g2) == len(ref) and all(x[0] is y[0] and x[1] == y[1] for x, y in zip(g2, ref))) if isinstance(ref, list) else (set(g2) == set(ref) and all(close(g2[k], ref[k]) for k in ref))
                if not same:
                    bad("getter-aliased-%s" % gname, node, path, "the container returned by %s() was modified by the caller and the next %s() differs" % (gname, gname), sym=False)
            if set(o.getNuclides()) != set(here):
                bad("getter-aliased-state", node, path, "modifying returned containers changed the nuclides of the object", sym=False)

        section("volume", volume)
        if not comp:
            section("volume-fractions", volfracs)
        if full or lvl in ("block", "component"):
            section("ndens", ndens)
        section("mass", mass)
        if heavy:
            section("density", density)
        if full:
            section("atoms", atoms)
        if full and heavy:
            section("getMasses", masses)
            section("massfracs", massfracs)
            section("getter-aliasing", getter_aliasing)
            if "nds" in q and "v" in q and root is s.root:
                vs.extend(_conversions(s, M, q["nds"], q["v"], node, path, case, seen))
        if not comp:
            for i, (c, k) in enumerate(zip(o, node["kids"])):
                walk(c, k, path + [i])

    walk(root, tree, [])
    if root is s.root:
        for a in s.detached:
            vs += invariants(s, M, snap(s, a), case, None, root=a, suffix="-detached")
    return vs


def _is_hm(n):
    from armi.nucDirectory import nuclideBases

    return nuclideBases.byName[n].isHeavyMetal()


def _conversions(s, M, nd, vol, node, path, case, seen):
    """densityTools conversions are mutual inverses on this object's composition."""
    from armi.utils import densityTools as dt

    vs = []

    def bad(key, msg):
        k = "c02/conversion-" + key
        if k in seen:
            return
        seen.add(k)
        vs.append(core.viol(k, "%s composition %s: %s" % (_where(s, path), {n: nd[n] for n in sorted(nd)[:4]}, msg), case))

    if not nd:
        return vs
    rho = dt.calculateMassDensity(nd)
    mf = dt.getMassFractions(nd)
    if rho > 0:
        if not close(sum(mf.values()), 1.0):
            bad("massfractions-sum", "getMassFractions sums to %r" % sum(mf.values()))
        back = dt.getNDensFromMasses(rho, mf)
        for n, v in nd.items():
            if not close(back.get(n, 0.0), v):
                bad("ndens-massfrac-roundtrip", "getNDensFromMasses(calculateMassDensity, getMassFractions)[%s] = %r, started from %r" % (n, back.get(n), v))
                break
        back2 = dt.getNDensFromMasses(rho, {n: 3.0 * x for n, x in mf.items()}, normalize=True)
        for n, v in nd.items():
            if not close(back2.get(n, 0.0), v):
                bad("ndens-massfrac-normalize", "getNDensFromMasses(normalize=True) of 3 x mass fractions gives %s = %r, expected %r" % (n, back2.get(n), v))
                break
        if not close(dt.calculateMassDensity(back), rho):
            bad("density-roundtrip", "density of the converted-back vector %r vs %r" % (dt.calculateMassDensity(back), rho))
    for n, v in list(nd.items())[:3]:
        if not v:
            continue
        g = dt.getMassInGrams(n, vol, v)
        if not close(g, v * vol * M.W(n) / M.C):
            bad("getMassInGrams", "getMassInGrams(%s, %r, %r) = %r, N V A / N_A = %r" % (n, vol, v, g, v * vol * M.W(n) / M.C))
        bk = dt.calculateNumberDensity(n, g, vol)
        if not close(bk, v):
            bad("mass-ndens-roundtrip", "calculateNumberDensity(getMassInGrams(N)) = %r, N = %r (%s)" % (bk, v, n))
        g2 = dt.getMassInGrams(n, vol, dt.calculateNumberDensity(n, 123.0, vol))
        if not close(g2, 123.0):
            bad("ndens-mass-roundtrip", "getMassInGrams(calculateNumberDensity(123 g)) = %r g (%s)" % (g2, n))
    return vs


# ---------------------------------------------------------------------------------------------
# expand / evaluate / run


def _touched_paths(hist):
    return [tuple(op[1]) for op in hist]


def expand(item):
    import time

    cpu0 = time.process_time()
    init, hist, outs = item["init"], item["hist"], item.get("outs", [])
    M = model()
    s = build_state(init)
    tree0 = snap(s)
    case = {"init": init, "hist": hist, "outs": list(outs)}
    viols = []
    tree = tree0
    out = "ok"
    for k, op in enumerate(hist):
        last = k == len(hist) - 1
        out, tree, vs = step(s, M, tree, op, check=last, case=case)
        if k < len(outs) and out != outs[k]:
            raise RuntimeError("prefix replay diverged at %d: %s gives %s, recorded %s" % (k, op, out, outs[k]))
        viols += vs
    if len(outs) < len(hist):
        case["outs"] = list(outs) + [out]
    full_paths = None
    if init["kind"] == "core" and hist:
        full_paths = _touched_paths(hist)
    viols += invariants(s, M, tree, case, full_paths)
    # operations offered here: rank >= ranks[depth], and only if the whole history has that rank
    ranks = init.get("ranks", [0, 1, 1, 1])
    depth = len(hist)
    R = ranks[depth] if depth < len(ranks) else 99
    alpha = alphabet(s, tree0, M)
    rank_of = {_opkey(op): rk for op, rk in alpha}
    if all(_offered(rank_of.get(_opkey(h), -1), R) for h in hist):
        ops = [op for op, rk in alpha if _offered(rk, R)]
    else:
        ops = []
    return {"canon": _digest([canon(tree, M)] + [canon(snap(s, a), M) for a in s.detached]), "full": None, "viols": viols, "ops": ops, "out": out, "terminal": not ops, "cpu": time.process_time() - cpu0}


def _opkey(op):
    import json

    return json.dumps(op, sort_keys=True)


def _digest(x):
    import hashlib
    import json

    return hashlib.sha1(json.dumps(x, sort_keys=True).encode()).hexdigest()


def evaluate(case):
    return expand({"init": case["init"], "hist": case["hist"], "outs": case.get("outs", [])[: max(0, len(case["hist"]) - 1)]})["viols"]


def inits(ctx):
    B = bounds(ctx.quick)
    table = []
    i = 0
    for si in range(len(SHAPES)):
        for mult in MULTS:
            for mat in MATERIALS:
                for T in TEMPS:
                    geoms = ["hex", "cart"] if B["table_geoms"] == "both" else [["hex", "cart"][i % 2]]
                    i += 1
                    for g in geoms:
                        table.append({"kind": "block", "geom": g, "shape": si, "mult": mult, "mat": mat, "T": T, "height": 10.0 if g == "hex" else 7.5})
    rich = [{"kind": "rich", "which": w} for w in ("hexfuel", "hexcontrol", "cartoxide")]
    rich.append({"kind": "rich", "which": "hexfuel", "detailed": True})
    assem = [{"kind": "assembly", "which": w} for w in ("hex3", "cart2", "hex2")]
    bp = [{"kind": "assembly", "which": "blueprint"}]
    cores = [{"kind": "core", "rings": 3}]
    cart = [{"kind": "core", "geom": "cart"}]
    groups = [("table", table), ("rich", rich), ("assembly", assem), ("assembly-blueprint", bp), ("core", cores), ("core-cartesian", cart)]
    groups += [("assembly-stale", [dict(x) for x in assem]), ("core-stale", [dict(x) for x in cores]), ("core-cartesian-stale", [dict(x) for x in cart])]
    for name, ii in groups:
        for x in ii:
            x["ranks"] = list(B[name][1])
    return B, groups


KEEP_PER_KEY = 25  # violations stored per class key (all are counted in the counters)


def _bfs(ctx, inits_, depth, max_states=None):
    """explore.bfs with one difference: a state in which an oracle fired is still extended (several
    genuine defects are visible in the initial core state; stopping there would leave the core
    unexplored while they are open).  A state reached by an operation that raised outside its
    contract is terminal (its partial effect is not a defined state).  No differential oracle: the
    canonical form is the complete state (per-component densities, volumes, detailedNDens)."""
    import json

    seen = set()
    extended = set()
    frontier = [{"init": init, "hist": [], "outs": [], "_i": i} for i, init in enumerate(inits_)]
    st = {"states": 0, "transitions": 0, "traces": 0, "levels": [], "closure": False, "ops": {}, "outcomes": {}, "capped": False}
    stored = {}
    for d in range(depth + 1):
        if not frontier:
            st["closure"] = True
            break
        frontier = frontier if d == 0 else ctx.order(frontier)
        res = core.pmap(MOD, "expand", [{k: v for k, v in it.items() if k != "_i"} for it in frontier])
        nxt = []
        new = 0
        for it, r in zip(frontier, res):
            st["traces"] += 1
            st["cpu_s"] = st.get("cpu_s", 0.0) + r.get("cpu", 0.0)
            out = r.get("out", "ok")
            if it["hist"]:
                st["transitions"] += 1
                opn = it["hist"][-1][0]
                st["ops"][opn] = st["ops"].get(opn, 0) + 1
                st["outcomes"][out] = st["outcomes"].get(out, 0) + 1
            for v in r["viols"]:
                ctx.count("violations_" + v["key"])
                if stored.get(v["key"], 0) < KEEP_PER_KEY:
                    stored[v["key"]] = stored.get(v["key"], 0) + 1
                    ctx.add_violations([v])
            k = (it["_i"], r["canon"])
            extendable = d < depth and not r.get("terminal") and not out.startswith("raised:")
            if k not in seen:
                seen.add(k)
                new += 1
                st["states"] += 1
            elif not extendable or k in extended:
                continue
            # Whether a state is extended must not depend on which of several histories reaching
            # it is processed first (the seed permutes the order): a state is extended once, by the
            # first history that is allowed to extend it.
            if extendable:
                extended.add(k)
            if it["hist"] and len(it["hist"]) == d and len(ctx.samples) < 5 and (len(ctx.samples) < d or it["init"]["kind"] not in [x["init"].get("kind") for x in ctx.samples]):
                ctx.samples.append({"init": it["init"], "history": it["hist"], "outcomes": it["outs"] + [out]})
            if extendable:
                outs = it["outs"] + ([out] if it["hist"] else [])
                for op in r["ops"]:
                    nxt.append({"init": it["init"], "hist": it["hist"] + [op], "outs": outs, "_i": it["_i"]})
        st["levels"].append({"depth": d, "executed": len(frontier), "new_states": new})
        ctx.log("depth %d: executed %d histories, %d new canonical states, next frontier %d (cpu so far %.0f s)" % (d, len(frontier), new, len(nxt), st.get("cpu_s", 0.0)))
        if max_states and st["states"] >= max_states and nxt and d < depth:
            st["capped"] = True
            ctx.notes.append("state cap %d reached after depth %d; deeper levels not explored" % (max_states, d))
            break
        frontier = nxt
    else:
        st["closure"] = not frontier
    return st


def run(ctx):
    import os

    B, groups = inits(ctx)
    only = [g for g in os.environ.get("VERIF_C02_GROUPS", "").split(",") if g]  # development aid: restrict the searches
    if only:
        groups = [(n, ii) for n, ii in groups if n in only]
        ctx.notes.append("restricted to searches %s by VERIF_C02_GROUPS (development run)" % only)
    total = {}
    depths = {}
    for name, ii in groups:
        depth = depths[name] = B[name][0]
        ctx.log("search %s: %d initial states, depth %d, minimum operation rank per depth %s" % (name, len(ii), depth, B[name][1]))
        st = _bfs(ctx, ii, depth, max_states=B["max_states"])
        explore.merge_stats(total, st)
        total["searches"][-1]["name"] = name
        total["searches"][-1]["initial_states"] = len(ii)
        total["searches"][-1]["depth"] = depth
        total["searches"][-1]["worker_cpu_s"] = round(st.get("cpu_s", 0.0), 1)
        ctx.count("states_" + name, st["states"])
        for o, n in st["outcomes"].items():
            ctx.count("outcome_" + o, n)
        for o, n in st["ops"].items():
            ctx.count("op_" + o, n)
    explore.finish(ctx, total, {"depth": depths, "rtol": RTOL})
    ctx.coverage["exhaustive"] = False  # the numeric state space is infinite: depth-bounded by design
    ctx.assumptions += [
        "depth-bounded: every history of <= depth operations of the stated alphabet from the stated initial states; beyond depth 1 only the 'deep' sub-alphabet is extended",
        "finite value alphabet: x0.5, x2, 0, trace, fixed masses/fractions (DESIGN 1.4); one dimension set per shape class; 6 materials x 2 temperature pairs",
        "component volumes are closed-form functions of the hot dimensions read through getDimension (thermal expansion itself is C03's subject); atomic weights and Avogadro's number are taken from the nuclide directory / units module",
        "assemblies have blocks of equal area (documented assumption of Assembly.getVolume); third-core model without edge assemblies (symmetry factors 3 and 1)",
        "natural-element and isotopic nuclides of the same element are never mixed in one object; mass-fraction requests are checked only when some unlisted nuclide with more than trace-level mass (fraction > 1e-30) can absorb the difference",
    ]
