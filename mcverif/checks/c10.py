"""C10 - cross-section libraries merge losslessly; macroscopic data are density-weighted sums.

Merge part (model checking over merge histories). A *state* is the content of a target library,
a *transition* is one ``IsotxsLibrary.merge`` call on the real code. Every ordered sequence of
<= 3 (quick) / <= 4 (thorough) distinct members of a pool is merged into a fresh library; after
EVERY step the target's observation is compared with a boring reference model (field-wise union of
the observations of independently built sources):

* no conflict predicted  -> the call succeeds; labels = union; per-label neutron / gamma /
  production data and metadata, library properties and file metadata equal the sources';
* conflict predicted (different group structure / dose factors, different file-wide metadata of
  the same kind, same kind of data for the same label) -> the call raises one of the refusal
  classes and the target's observation is what it was before the call;
* all orders reaching the same set of merged members have the same order-free content.

Macroscopic part (exhaustive composition grid on libraries merged from generated members and from
the repo fixtures): every public entry point (computeMacroscopicGroupConstants, the four energy
constants, MacroscopicCrossSectionCreator on a real HexBlock, XSCollection.getTotalScatterMatrix)
against direct recomputation from the *source* micro data, plus linearity, additivity over
nuclides, empty composition => zeros and the defining sums of absorption / removal / total scatter
evaluated on the returned arrays themselves.

A *case* is pure JSON: {"part": "merge", "pool": .., "seq": [member names]}, {"part": "order", ..},
{"part": "macro" | "lin" | "tsm", ..}.
"""
import itertools
import json

from mcverif import core
from mcverif.checks import c10_lib as L

PROPERTY = "C10"
LEVEL = "model_checking"
MOD = "mcverif.checks.c10"

# the real code and the oracle add the same products in the same (sorted-name) order; the defining
# sums re-associate at most ~10 terms of O(1..1e4) numbers
TOL = 1e-12

BOUNDS = {
    "quick": {"gen_len": 3, "fix_len": 3, "macro_libs": ["gen1", "gen2", "fix"], "pattern_libs": ["pat2"], "hist_fams": ["h2"], "hist_len": 4, "dens": [None, 0.0, 1e-3, 2e-3], "lin_dens": [0.0, 1e-3, 2e-3]},
    "thorough": {"gen_len": 4, "fix_len": 4, "macro_libs": ["gen1", "gen2", "gen3", "fix"], "pattern_libs": ["pat2", "pat3"], "hist_fams": ["h2", "h3"], "hist_len": 5, "dens": [None, 0.0, 5e-4, 1e-3, 2e-3], "lin_dens": [0.0, 5e-4, 1e-3, 2e-3]},
}
MACRO_NUCS = ["U235", "FE56", "NA23"]
MISSING_NUC = "PU239"  # a real nuclide that none of the libraries holds under the probed suffixes
NUC_LABEL = {"U235": "U235", "FE56": "FE56", "NA23": "NA23", "PU239": "PU39", "DUMP1": "DMP1", "U238": "U238", "FE54": "FE54", "CR52": "CR52", "NI58": "NI58", "MN55": "MN55", "BA138": "BA38"}
FIX_MACRO_ORDER = ["ISOAA", "gamAA", "pmxAA", "ISOAB", "gamAB", "pmxAB"]
LIN_COEFFS = [[1.0, 1.0], [2.0, 3.0]]


def _bad(vs, key, msg, case):
    vs.append(core.viol("c10/" + key, msg, case))


def _reset():
    """Shared default-zero vectors are a process-wide cache: start every execution without it."""
    from armi.nuclearDataIO import xsCollections

    xsCollections.XSCollection._zeroes.clear()


_SRC = {}


def src_obs(name):
    """Observation of an independently built, never merged instance of a member (pure data)."""
    if name not in _SRC:
        _SRC[name] = L.libobs(L.build_member(name))
    return _SRC[name]


_COMB = {}


def combined_obs(kind):
    if kind not in _COMB:
        _COMB[kind] = L.libobs(L.read_combined(kind))
    return _COMB[kind]


def _refusals():
    from armi.utils import properties

    return (properties.ImmutablePropertyError, OSError, AttributeError)


SECTIONS = ["labels", "nuc", "neutronVelocity", "props", "numGroups", "numGroupsGamma", "meta", "files", "foreign_container", "inconsistent_index"]
CONTENT_KEY = {
    "labels": "merge-label-set",
    "nuc": "merge-nuclide-data-differs-from-source",
    "neutronVelocity": "merge-neutronVelocity",
    "props": "merge-library-property",
    "numGroups": "merge-group-count",
    "numGroupsGamma": "merge-group-count",
    "meta": "merge-file-metadata",
    "files": "merge-file-metadata",
    "foreign_container": "merge-nuclide-container",
    "inconsistent_index": "merge-label-index-inconsistent",
}
DIRTY_KEY = {
    "labels": "merge-conflict-mutates-target-nuclides",
    "nuc": "merge-conflict-mutates-target-nuclides",
    "foreign_container": "merge-conflict-mutates-target-nuclides",
    "inconsistent_index": "merge-conflict-mutates-target-nuclides",
    "neutronVelocity": "merge-conflict-mutates-target-properties",
    "props": "merge-conflict-mutates-target-properties",
    "numGroups": "merge-conflict-mutates-target-properties",
    "numGroupsGamma": "merge-conflict-mutates-target-properties",
    "meta": "merge-conflict-mutates-target-metadata",
    "files": "merge-conflict-mutates-target-metadata",
}


def _sections_diff(a, b):
    out = []
    for s in SECTIONS:
        if s == "labels":
            # the statement speaks of the *set* of nuclides; order is file order of the sources
            d = L.first_diff(sorted(a.get(s, [])), sorted(b.get(s, [])), "/labels")
        else:
            d = L.first_diff(a.get(s), b.get(s), "/" + s)
        if d:
            out.append((s, d))
    return out


def _rebuild(ok):
    from armi.nuclearDataIO import xsLibraries

    t = xsLibraries.IsotxsLibrary()
    for n in ok:
        t.merge(L.build_member(n))
    return t


def run_seq(case):
    """Merge ``case['seq']`` one by one into a fresh library, checking model agreement after every
    step. Returns {"viols": [...], "steps": [[k, outcome, merged-set, order-free digest, reason], ...]}."""
    from armi.nuclearDataIO import xsLibraries

    _reset()
    pool, seq = case["pool"], list(case["seq"])
    refusals = _refusals()
    vs, steps = [], []
    target = xsLibraries.IsotxsLibrary()
    T = L.model_empty()
    ok = []
    prev = L.libobs(target)
    unsettled = False
    for s, d in _sections_diff(T, prev):
        _bad(vs, "fresh-library-not-empty", "a fresh IsotxsLibrary observes %s" % (d,), {"part": "merge", "pool": pool, "seq": []})
    for k, name in enumerate(seq):
        sub = {"part": "merge", "pool": pool, "seq": seq[: k + 1]}
        M = src_obs(name)
        member = L.build_member(name)
        reason = L.model_conflict(T, M)
        try:
            target.merge(member)
            out, exc = "ok", None
        except refusals as e:
            out, exc = "refused:" + type(e).__name__, e
        except Exception as e:  # noqa: BLE001 - any other class is a finding, not a refusal
            out, exc = "error:" + type(e).__name__, e
        now = L.libobs(target)
        hist = "[] <- " + " <- ".join(seq[: k + 1])
        resync = False
        if out == "ok":
            if reason:
                _bad(vs, "merge-conflict-silently-combined:" + reason.split(":")[0], "%s: merging %s must be refused (%s) but succeeded" % (hist, name, reason), sub)
                resync = True
                unsettled = True  # what the target now holds is not a union of members any more
            else:
                T = L.model_merge(T, M)
                ok.append(name)
                for s, d in _sections_diff(T, now):
                    key = CONTENT_KEY[s]
                    if s == "neutronVelocity" and d[2] is None:
                        key = "merge-neutronVelocity-lost"
                    _bad(vs, key, "%s: after merging %s, %s is %s in the target, the union of the sources has %s" % (hist, name, d[0], L.show(d[2]), L.show(d[1])), sub)
                    resync = True
                _fixture_combined(vs, ok, name, now, sub, hist)
        else:
            if out.startswith("error"):
                _bad(vs, "merge-unexpected-exception", "%s: merging %s raised %s: %s" % (hist, name, type(exc).__name__, L.short(str(exc), 200)), sub)
            elif not reason:
                _bad(vs, "merge-nonconflicting-refused", "%s: merging %s (no conflict by the model) raised %s: %s" % (hist, name, type(exc).__name__, L.short(str(exc), 200)), sub)
            dirty = _sections_diff(prev, now)
            seen = set()
            for s, d in dirty:
                if DIRTY_KEY[s] in seen:
                    continue
                seen.add(DIRTY_KEY[s])
                _bad(
                    vs,
                    DIRTY_KEY[s],
                    "%s: merging %s was refused (%s; model: %s) but the target changed: %s was %s, is now %s" % (hist, name, type(exc).__name__, reason, d[0], L.show(d[1]), L.show(d[2])),
                    sub,
                )
            if dirty:
                # continue from a clean target holding what was merged successfully so far
                try:
                    target = _rebuild(ok)
                except Exception:  # noqa: BLE001 - cannot happen unless merging itself is broken (reported above)
                    steps.append([k + 1, out, sorted(ok), core.jhash(L.order_free(now)), reason, True])
                    break
                now = L.libobs(target)
        if resync:
            T = json.loads(json.dumps(now))  # schema of model state == schema of observation
            T.pop("inconsistent_index", None)
        steps.append([k + 1, out, sorted(ok), core.jhash(L.order_free(now)), reason, unsettled])
        prev = now
    return {"viols": vs, "steps": steps}


def _fixture_combined(vs, ok, name, now, sub, hist):
    """ISOAA+ISOAB (and the gamiso / pmatrx pairs) against the shipped combined-AA-AB.* files."""
    pairs = {"ISOTXS": ("ISOAA", "ISOAB"), "GAMISO": ("gamAA", "gamAB"), "PMATRX": ("pmxAA", "pmxAB")}
    for kind, pr in pairs.items():
        if name in pr and pr[0] in ok and pr[1] in ok:
            c = combined_obs(kind)
            if sorted(c["labels"]) != sorted(now["labels"]):
                _bad(vs, "merge-fixture-combined-differs", "%s: labels differ from %s" % (hist, L.COMBINED[kind]), sub)
                continue
            for label in c["labels"]:
                d = L.first_diff(c["nuc"][label][kind], now["nuc"][label][kind], "/nuc/%s/%s" % (label, kind))
                if d:
                    _bad(vs, "merge-fixture-combined-differs", "%s: %s differs from %s: shipped %s, merged %s" % (hist, d[0], L.COMBINED[kind], L.show(d[1]), L.show(d[2])), sub)
                    break
            d = L.first_diff({k: v for k, v in c["meta"][kind].items()}, now["meta"][kind], "/meta/" + kind)
            if d:
                _bad(vs, "merge-fixture-combined-differs", "%s: %s differs from %s: shipped %s, merged %s" % (hist, d[0], L.COMBINED[kind], L.show(d[1]), L.show(d[2])), sub)


def eval_order(case):
    """Two orders reaching the same set of merged members must have the same order-free content."""
    a = run_seq({"pool": case["pool"], "seq": case["seq"]})["steps"][-1]
    b = run_seq({"pool": case["pool"], "seq": case["other"]})["steps"][-1]
    if a[2] == b[2] and a[3] != b[3]:
        return [core.viol("c10/merge-order-dependent-content", "merging %s and merging %s both hold %s but differ in order-free content" % (case["seq"], case["other"], a[2]), case)]
    return []


# ---------------------------------------------------------------------------------------------
# macroscopic part


def macro_order(libname):
    if libname == "fix":
        return list(FIX_MACRO_ORDER)
    return [s["name"] for s in L.MACRO_MEMBERS[libname]]


def macro_lib(libname):
    """(real merged library, model state built from the independent source observations)."""
    T = L.model_empty()
    for n in macro_order(libname):
        T = L.model_merge(T, src_obs(n))
    return _rebuild(macro_order(libname)), T


def _macro_lib_or_viol(case, vs):
    try:
        return macro_lib(case["lib"])
    except Exception as e:  # noqa: BLE001
        _bad(vs, "macro-library-cannot-be-merged", "merging the conflict-free sequence %s raised %s: %s" % (macro_order(case["lib"]), type(e).__name__, L.short(str(e), 200)), case)
        return None, None


def make_block(comp, suffix):
    from armi.reactor import blocks, components

    b = blocks.HexBlock("fuel", height=10.0)
    c = components.Hexagon("duct", "Void", Tinput=25.0, Thot=25.0, op=10.0, ip=0.0, mult=1)
    b.add(c)
    b.p.xsType, b.p.envGroup = suffix[0], suffix[1]
    c.setNumberDensities(dict(comp))
    return b


VECTOR_RX = ["nGamma", "nalph", "np", "nd", "nt", "fission", "n2n"]
MATRIX_RX = ["total", "transport"]
SCATTER = ["elasticScatter", "inelasticScatter", "n2nScatter"]
PM_RX = ["neutronHeating", "neutronDamage", "gammaHeating"]
NONLINEAR = ("diffusionConstants", "chi")


def real_outputs(lib, suffix, comp, want_gamma, creator=None):
    """Every entry point on the real code. Values: ndarray | None | ('EXC', class name).
    ``creator``: a MacroscopicCrossSectionCreator that lives across calls (None: a fresh one per build)."""
    import numpy as np

    from armi.nuclearDataIO import xsCollections as xc

    b = make_block(comp, suffix)
    names = sorted(comp)
    dens = dict(zip(names, (float(x) for x in b.getNuclideNumberDensities(names))))
    out = {}

    def call(key, f, *a, **kw):
        try:
            r = f(*a, **kw)
            out[key] = None if r is None else np.array(r, dtype=float)
        except Exception as e:  # noqa: BLE001 - classified by the oracle
            out[key] = ("EXC", type(e).__name__)

    for rx in VECTOR_RX + MATRIX_RX:
        call("mgc:" + rx, xc.computeMacroscopicGroupConstants, rx, dens, lib, suffix, libType="micros")
        if want_gamma:
            call("mgcG:" + rx, xc.computeMacroscopicGroupConstants, rx, dens, lib, suffix, libType="gammaXS")
    call("mgc:nuSigF", xc.computeMacroscopicGroupConstants, "fission", dens, lib, suffix, libType="micros", multConstant="neutronsPerFission")
    for rx in PM_RX:
        call("mgc:" + rx, xc.computeMacroscopicGroupConstants, rx, dens, lib, suffix)
    call("edep:neutron", xc.computeNeutronEnergyDepositionConstants, dens, lib, suffix)
    call("edep:gamma", xc.computeGammaEnergyDepositionConstants, dens, lib, suffix)
    call("egen:fission", xc.computeFissionEnergyGenerationConstants, dens, lib, suffix)
    call("egen:capture", xc.computeCaptureEnergyGenerationConstants, dens, lib, suffix)
    for tag, libType in (("cr", "micros"), ("crG", "gammaXS")):
        if libType == "gammaXS" and not want_gamma:
            continue
        try:
            with np.errstate(divide="ignore", invalid="ignore"):
                m = (creator or xc.MacroscopicCrossSectionCreator()).createMacrosFromMicros(lib, make_block(comp, suffix), libType=libType)
            for a in VECTOR_RX + MATRIX_RX + ["nuSigF", "absorption", "removal", "diffusionConstants", "chi"]:
                v = getattr(m, a)
                out["%s:%s" % (tag, a)] = None if v is None else np.array(v, dtype=float)
            for a in SCATTER + ["totalScatter"]:
                v = getattr(m, a)
                out["%s:%s" % (tag, a)] = None if v is None else np.array(v.toarray(), dtype=float)
        except Exception as e:  # noqa: BLE001
            out[tag] = ("EXC", type(e).__name__)
    return out, dens


def expected_outputs(T, suffix, dens, want_gamma):
    """Direct recomputation Sigma = sum_n N_n sigma_n from the source data held by the model."""
    import numpy as np

    from armi.utils import units

    ng, gg = T["numGroups"], T["numGroupsGamma"]
    nz = sorted((n, d) for n, d in dens.items() if d)
    missing = [n for n, d in nz if NUC_LABEL[n] + suffix not in T["nuc"]]
    if missing:
        return {"*": ("EXC", "ValueError")}

    def arr(label, kind, sub, name):
        return np.array(L.flat(T["nuc"][label][kind][sub][name]), dtype=float)

    exp = {}

    def wsum(kind, sub, name, n_groups, mult=None):
        tot = None
        for n, d in nz:
            lab = NUC_LABEL[n] + suffix
            if T["nuc"][lab][kind] is None:
                return ("SKIP", n)  # the library holds no data of this kind for a nuclide of the composition
            a = arr(lab, kind, sub, name)
            if mult == "neutronsPerFission":
                a = a * arr(lab, kind, sub, mult)
            elif mult in ("efiss", "ecapt"):
                a = a * float(T["nuc"][lab]["ISOTXS"]["meta"][mult])
            tot = d * a if tot is None else tot + d * a
        return ("ZEROS", n_groups) if tot is None else tot

    for rx in VECTOR_RX + MATRIX_RX:
        exp["mgc:" + rx] = wsum("ISOTXS", "xs", rx, ng)
        if want_gamma:
            exp["mgcG:" + rx] = wsum("GAMISO", "xs", rx, gg)
    exp["mgc:nuSigF"] = wsum("ISOTXS", "xs", "fission", ng, "neutronsPerFission")
    for rx in PM_RX:
        exp["mgc:" + rx] = wsum("PMATRX", "data", rx, gg if rx == "gammaHeating" else ng)

    def scaled(v, c):
        return v if isinstance(v, tuple) else v * c

    def skip(v):
        return isinstance(v, tuple) and v[0] == "SKIP"

    exp["edep:neutron"] = scaled(exp["mgc:neutronHeating"], units.JOULES_PER_eV)
    exp["edep:gamma"] = scaled(exp["mgc:gammaHeating"], units.JOULES_PER_eV)
    exp["egen:fission"] = wsum("ISOTXS", "xs", "fission", ng, "efiss")
    cap = None
    for rx in ["nGamma", "nalph", "np", "nd", "nt"]:
        w = wsum("ISOTXS", "xs", rx, ng, "ecapt")
        cap = w if cap is None or isinstance(w, tuple) else cap + w
    exp["egen:capture"] = cap
    if any(skip(v) for k, v in exp.items() if k.startswith("mgc:") and k[4:] in VECTOR_RX):
        return {k: v for k, v in exp.items() if not skip(v)}  # no neutron data: nothing to say about the creator

    libnucs = [lab for lab in T["labels"] if lab.endswith(suffix)]
    for tag, kind, n_groups in (("cr", "ISOTXS", ng), ("crG", "GAMISO", gg)):
        if kind == "GAMISO" and not want_gamma:
            continue
        pre = "mgc:" if kind == "ISOTXS" else "mgcG:"

        def z(v, shape=None):
            return np.zeros(n_groups) if isinstance(v, tuple) else v

        for rx in VECTOR_RX:
            exp["%s:%s" % (tag, rx)] = z(exp[pre + rx])
        for rx in MATRIX_RX:
            exp["%s:%s" % (tag, rx)] = exp[pre + rx]  # ('ZEROS', n) when empty: any zero array with n rows
        exp[tag + ":nuSigF"] = z(wsum(kind, "xs", "fission", n_groups, "neutronsPerFission"))
        absn = np.zeros(n_groups)
        for rx in VECTOR_RX:
            absn = absn + exp["%s:%s" % (tag, rx)]
        exp[tag + ":absorption"] = absn
        byname = {n: d for n, d in nz}
        for a in SCATTER:
            m = np.zeros((n_groups, n_groups))
            for lab in libnucs:
                blk = T["nuc"][lab][kind]
                if blk is None or blk["xs"][a] is None:
                    continue
                d = byname.get(T["nuc"][lab]["base"], 0.0)
                m = m + d * np.array(L.flat(blk["xs"][a]), dtype=float)
            exp["%s:%s" % (tag, a)] = m
        ts = exp[tag + ":elasticScatter"] + exp[tag + ":inelasticScatter"] + 2.0 * exp[tag + ":n2nScatter"]
        exp[tag + ":totalScatter"] = ts
        exp[tag + ":removal"] = absn - exp[tag + ":n2n"] + ts.sum(axis=0) - np.diag(ts)
        tr = exp[tag + ":transport"]
        if not isinstance(tr, tuple):
            with np.errstate(divide="ignore"):
                exp[tag + ":diffusionConstants"] = 1.0 / (3.0 * tr)
        if tag == "cr":
            num, den = np.zeros(ng), 0.0
            for lab in libnucs:
                blk = T["nuc"][lab]["ISOTXS"]
                if blk is None:
                    continue
                d = byname.get(T["nuc"][lab]["base"], 0.0)
                f = float(np.sum(np.array(L.flat(blk["xs"]["neutronsPerFission"])) * np.array(L.flat(blk["xs"]["fission"]))))
                num = num + np.array(L.flat(blk["xs"]["chi"]), dtype=float) * d * f
                den += d * f
            exp["cr:chi"] = num / den if den != 0.0 else np.zeros(ng)
    return exp


def _close(a, b):
    import numpy as np

    if a.shape != b.shape:
        return False
    with np.errstate(invalid="ignore"):
        return bool(np.all((np.abs(a - b) <= TOL * (np.abs(b) + 1e-300)) | (a == b)))


def _group_of(q):
    head, _, tail = q.partition(":")
    if head in ("mgc", "mgcG"):
        return "macro-group-constants-not-weighted-sum"
    if head in ("edep", "egen"):
        return "macro-energy-constants-not-weighted-sum"
    if tail in ("absorption", "removal", "totalScatter"):
        return "macro-creator-derived-" + tail
    if tail in SCATTER:
        return "macro-creator-scatter-matrix"
    if tail in NONLINEAR:
        return "macro-creator-" + tail
    return "macro-creator-basic-xs"


def _check_multlib(lib, suffix, dens, what, vs, stats, case):
    """computeMacroscopicGroupConstants with a separate multiplier library: (a) an identical copy as multLib
    changes nothing; (b) a nuclide absent from multLib contributes nothing (its documented 'skipped' fate) -
    decided differentially: same call with that nuclide's density removed; a ValueError refusal is accepted."""
    import copy

    import numpy as np

    from armi.nuclearDataIO import xsCollections as xc

    present = [n for n, d in sorted(dens.items()) if d]
    try:
        for n in present:
            lib.getNuclide(n, suffix)
        mult = copy.deepcopy(lib)
    except Exception:  # noqa: BLE001 - a nuclide missing from lib (refusal decided elsewhere) or no copy: nothing to say
        return
    if not present:
        return

    def f(d, m):
        try:
            return np.array(xc.computeMacroscopicGroupConstants("fission", d, lib, suffix, libType="micros", multConstant="neutronsPerFission", multLib=m), dtype=float)
        except Exception as e:  # noqa: BLE001
            return ("EXC", type(e).__name__)

    base, same = f(dens, None), f(dens, mult)
    stats["multlib"] = stats.get("multlib", 0) + 1
    if isinstance(base, tuple) != isinstance(same, tuple) or (isinstance(base, tuple) and base != same) or (not isinstance(base, tuple) and not _close(same, base)):
        _bad(vs, "macro-multlib-identical-copy-differs", "%s: nu*fission with multLib=an identical copy of the library gives %s, without multLib %s" % (what, L.short(same if isinstance(same, tuple) else same.tolist()), L.short(base if isinstance(base, tuple) else base.tolist())), case)
    for x in present:
        m2 = copy.deepcopy(lib)
        try:
            del m2[NUC_LABEL[x] + suffix]
        except Exception:  # noqa: BLE001
            continue
        got = f(dens, m2)
        if isinstance(got, tuple) and got[1] == "ValueError":
            continue
        want = f({k: v for k, v in dens.items() if k != x}, m2)
        stats["multlib"] += 1
        if isinstance(got, tuple) or isinstance(want, tuple):
            if got != want:
                _bad(vs, "macro-multlib-missing-nuclide", "%s: multLib without %s: %s, but %s when %s has no density" % (what, x, L.short(got if isinstance(got, tuple) else got.tolist()), L.short(want if isinstance(want, tuple) else want.tolist()), x), case)
        elif not _close(got, want):
            _bad(vs, "macro-multlib-missing-nuclide", "%s: nuclide %s is absent from the multiplier library yet contributes: nu*fission %s, %s with its density removed" % (what, x, L.short(got.tolist()), L.short(want.tolist())), case)


def check_comp(lib, T, libname, suffix, comp, want_gamma, vs, stats, case=None, creator=None):
    import numpy as np

    case = case or {"part": "macro", "lib": libname, "suffix": suffix, "comps": [comp]}
    real, dens = real_outputs(lib, suffix, comp, want_gamma, creator)
    exp = expected_outputs(T, suffix, dens, want_gamma)
    what = "lib %s suffix %s composition %s" % (libname, suffix, json.dumps(comp, sort_keys=True))
    if creator is None:
        _check_multlib(lib, suffix, dens, what, vs, stats, case)
    empty = not any(dens.values())
    stats["outputs"] = stats.get("outputs", 0) + len(real)
    if "*" in exp:
        stats["missing"] = stats.get("missing", 0) + 1
        held = [T["nuc"][NUC_LABEL[n] + suffix] for n, d in dens.items() if d and NUC_LABEL[n] + suffix in T["nuc"]]
        no_pm = any(h["PMATRX"] is None for h in held)  # nothing to say where the library holds no such data
        for q, r in real.items():
            if no_pm and (q.startswith("edep:") or q.partition(":")[2] in PM_RX):
                continue
            if not (isinstance(r, tuple) and r[1] == "ValueError"):
                _bad(vs, "macro-missing-nuclide-not-refused", "%s: %s gives %s although a nuclide with non-zero density is not in the library (ValueError expected)" % (what, q, L.short(r)), case)
                break
        return real
    told = set()
    for q in sorted(exp):
        e = exp[q]
        if isinstance(e, tuple) and e[0] == "SKIP":
            continue
        head = q.split(":")[0]
        if head in told:
            continue
        r = real.get(q, real.get(head))
        ent = {"mgc": "computeMacroscopicGroupConstants", "mgcG": "computeMacroscopicGroupConstants", "edep": "energy-deposition constants", "egen": "energy-generation constants", "cr": "MacroscopicCrossSectionCreator", "crG": "MacroscopicCrossSectionCreator"}[head]
        if r is None or isinstance(r, tuple):
            if empty:
                if r is None:
                    key = "macro-empty-composition-returns-None"
                else:
                    key = {"edep": "macro-empty-composition-energy-constants-raise", "egen": "macro-empty-composition-energy-constants-raise"}.get(head, "macro-empty-composition-creator-raises" if head in ("cr", "crG") else "macro-empty-composition-raises")
                _bad(vs, key, "%s: %s (%s) gives %s; an empty composition must give zeros" % (what, ent, q, "None" if r is None else r[1]), case)
                told.add(head)
            else:
                told.add(head)
                _bad(vs, "macro-unexpected-" + ("None" if r is None else "exception"), "%s: %s (%s) gives %s" % (what, ent, q, "None" if r is None else r[1]), case)
            continue
        if isinstance(e, tuple):  # zeros with e[1] rows, any number of moment columns
            if r.shape[:1] != (e[1],) or r.any():
                _bad(vs, "macro-empty-composition-not-zero", "%s: %s is %s, expected zeros over %d groups" % (what, q, L.short(r.tolist()), e[1]), case)
            continue
        if not _close(r, e):
            _bad(vs, _group_of(q), "%s: %s is %s, direct recomputation sum_n N_n*sigma_n gives %s" % (what, q, L.short(r.tolist()), L.short(np.asarray(e).tolist())), case)
    # defining sums evaluated on the returned arrays themselves
    for tag in ("cr", "crG"):
        if tag + ":absorption" not in real:
            continue
        g = lambda a: real["%s:%s" % (tag, a)]  # noqa: E731
        s = sum(g(rx) for rx in VECTOR_RX)
        if not _close(g("absorption"), s):
            _bad(vs, "macro-creator-derived-absorption", "%s: %s absorption %s != sum of its returned capture+fission+n2n %s" % (what, tag, L.short(g("absorption").tolist()), L.short(s.tolist())), case)
        ts = g("elasticScatter") + g("inelasticScatter") + 2.0 * g("n2nScatter")
        if not _close(g("totalScatter"), ts):
            _bad(vs, "macro-creator-derived-totalScatter", "%s: %s totalScatter != elastic + inelastic + 2*n2n of the returned matrices" % (what, tag), case)
        rem = g("absorption") - g("n2n") + g("totalScatter").sum(axis=0) - np.diag(g("totalScatter"))
        if not _close(g("removal"), rem):
            _bad(vs, "macro-creator-derived-removal", "%s: %s removal %s != absorption - n2n + out-scatter %s" % (what, tag, L.short(g("removal").tolist()), L.short(rem.tolist())), case)
    return real


def _want_gamma(T, suffix, comp):
    return all(NUC_LABEL[n] + suffix in T["nuc"] and T["nuc"][NUC_LABEL[n] + suffix]["GAMISO"] is not None for n, d in comp.items() if d)


def eval_macro(case):
    _reset()
    vs, stats = [], {}
    lib, T = _macro_lib_or_viol(case, vs)
    if lib is None:
        return {"viols": vs, "stats": stats, "n": 0}
    for comp in case["comps"]:
        comp = {k: v for k, v in comp.items() if v is not None}
        check_comp(lib, T, case["lib"], case["suffix"], comp, _want_gamma(T, case["suffix"], comp), vs, stats)
    # the library itself must not have been touched by any of the computations
    after = L.libobs(lib)
    d = L.first_diff(T["nuc"], after["nuc"], "/nuc")
    if d:
        _bad(vs, "macro-computation-mutates-library", "lib %s: after the computations %s is %s, source has %s" % (case["lib"], d[0], L.show(d[2]), L.show(d[1])), case)
    return {"viols": vs, "stats": stats, "n": len(case["comps"])}


HIST_OPS = [["fresh"], ["reuse"], ["merge"], ["del"], ["switch"], ["comp"]]
HIST_DENS = [1e-3, 2e-3, 0.0, 5e-4]


def eval_hist(case):
    """History search of the macroscopic part. Two libraries live through a history: #0 and a variant #1
    with the same labels and different data; ONE creator instance, the process-wide default-zero cache
    and both library objects survive every operation. Operations: build with a fresh creator, build with
    the reused creator, merge the second half of the nuclides into the current library, delete a nuclide
    from it, switch to the other library, change the density pattern (the composition always spans the
    nuclides the current library holds plus the deleted ones at density 0). After every build the oracle
    is the direct recomputation from the current library's model state as it is NOW."""
    from armi.nuclearDataIO import xsCollections as xc

    _reset()
    fam = L.HIST_FAMILIES[case["fam"]]
    vs, stats = [], {}
    libs, Ts, grown, gone = [], [], [False, False], [[], []]
    for v in (0, 1):
        libs.append(_rebuild([fam[("a", v)]]))
        Ts.append(L.model_merge(L.model_empty(), src_obs(fam[("a", v)])))
    creator = xc.MacroscopicCrossSectionCreator()
    cur, pat, builds, outs = 0, 0, 0, []
    for k, op in enumerate(case["ops"]):
        sub = {"part": "hist", "fam": case["fam"], "ops": case["ops"][: k + 1]}
        if op[0] == "merge":
            if grown[cur]:
                outs.append("noop")
                continue
            libs[cur].merge(L.build_member(fam[("b", cur)]))
            Ts[cur] = L.model_merge(Ts[cur], src_obs(fam[("b", cur)]))
            grown[cur] = True
            outs.append("ok")
        elif op[0] == "del":
            victim = next((x for x in L.HIST_DELETE_ORDER if x in Ts[cur]["nuc"]), None)
            if victim is None:
                outs.append("noop")
                continue
            del libs[cur][victim]
            T = dict(Ts[cur])
            T["labels"] = [x for x in T["labels"] if x != victim]
            T["nuc"] = {x: y for x, y in T["nuc"].items() if x != victim}
            Ts[cur] = T
            gone[cur].append(victim)
            outs.append("ok")
        elif op[0] == "switch":
            cur = 1 - cur
            outs.append("ok")
        elif op[0] == "comp":
            pat += 1
            outs.append("ok")
        else:
            names = [x[:-2] for x in Ts[cur]["labels"]]
            comp = {n: HIST_DENS[(i + pat) % len(HIST_DENS)] for i, n in enumerate(names)}
            comp.update({x[:-2]: 0.0 for x in gone[cur]})
            mine = []
            check_comp(libs[cur], Ts[cur], "%s#%d after %s" % (case["fam"], cur, case["ops"][:k]), "AA", comp, True, mine, stats, case=sub, creator=creator if op[0] == "reuse" else None)
            how = "macro-history-reused-" if op[0] == "reuse" else "macro-history-fresh-"
            for v in mine:
                # a first build on an untouched library is the plain grid's business; keep its key there
                if builds or k:
                    v["key"] = v["key"].replace("c10/macro-", "c10/" + how, 1)
            vs += mine
            builds += 1
            outs.append("built")
            # the library must be exactly what the model says after the build (nothing cached into it)
            d = L.first_diff(Ts[cur]["nuc"], L.libobs(libs[cur])["nuc"], "/nuc")
            if d:
                _bad(vs, "macro-build-mutates-library", "%s %s: after the build %s is %s, model has %s" % (case["fam"], case["ops"][: k + 1], d[0], L.show(d[2]), L.show(d[1])), sub)
    return {"viols": vs, "n": builds, "outs": outs, "stats": stats}


def hist_cases(ctx):
    bd = BOUNDS[ctx.tier]
    out = []
    for fam in bd["hist_fams"]:
        for n in range(1, bd["hist_len"] + 1):
            for pre in itertools.product(HIST_OPS, repeat=n - 1):
                for last in (["fresh"], ["reuse"]):
                    out.append({"part": "hist", "fam": fam, "ops": [list(o) for o in pre] + [last]})
    return out


def _z(a, like):
    """An all-zero vector over G groups stands for zeros of any (G, moments) shape."""
    if a.ndim == 1 and like.ndim == 2 and a.shape[0] == like.shape[0] and not a.any():
        return a[:, None]
    return a


def _lin_close(a, b, scale):
    import numpy as np

    ref = max((a, b, np.asarray(scale)), key=lambda x: x.ndim)
    a, b, scale = _z(a, ref), _z(b, ref), _z(np.asarray(scale), ref)

    return a.shape == b.shape and bool(np.all(np.abs(a - b) <= 8 * TOL * (scale + 1e-300)))


def eval_lin(case):
    """Linearity R(a*c1 + b*c2) = a*R(c1) + b*R(c2) and additivity over nuclides, on real outputs only."""
    import numpy as np

    _reset()
    vs = []
    lib, T = _macro_lib_or_viol(case, vs)
    if lib is None:
        return {"viols": vs, "n": 0}
    suffix = case["suffix"]
    cache = {}

    def R(comp):
        k = json.dumps(comp, sort_keys=True)
        if k not in cache:
            cache[k] = real_outputs(lib, suffix, comp, True)[0]
        return cache[k]

    n = 0
    for c1, c2, (al, be) in case["combos"]:
        c3 = {k: al * c1.get(k, 0.0) + be * c2.get(k, 0.0) for k in sorted(set(c1) | set(c2))}
        r1, r2, r3 = R(c1), R(c2), R(c3)
        n += 1
        for q in sorted(r3):
            if q.endswith(NONLINEAR) or any(x.get(q) is None or isinstance(x.get(q), tuple) for x in (r1, r2, r3)):
                continue
            ref = max((r1[q], r2[q], r3[q]), key=lambda x: x.ndim)
            want = al * _z(r1[q], ref) + be * _z(r2[q], ref)
            if not _lin_close(r3[q], want, np.abs(want)):
                sub = dict(case, combos=[[c1, c2, [al, be]]])
                _bad(vs, "macro-not-linear", "lib %s suffix %s: %s(%g*%s + %g*%s) = %s != %s" % (case["lib"], suffix, q, al, c1, be, c2, L.short(r3[q].tolist()), L.short(want.tolist())), sub)
                break
    for comp in case.get("additive", []):
        nzs = {k: v for k, v in comp.items() if v}
        if len(nzs) < 2:
            continue
        whole = R(comp)
        parts = [R({k: v}) for k, v in sorted(nzs.items())]
        n += 1
        for q in sorted(whole):
            if q.endswith(NONLINEAR) or any(x.get(q) is None or isinstance(x.get(q), tuple) for x in [whole] + parts):
                continue
            want = sum(p[q] for p in parts)
            if not _lin_close(whole[q], want, np.abs(want)):
                sub = dict(case, combos=[], additive=[comp])
                _bad(vs, "macro-not-additive-over-nuclides", "lib %s suffix %s: %s(%s) = %s != sum over single-nuclide compositions %s" % (case["lib"], suffix, q, comp, L.short(whole[q].tolist()), L.short(want.tolist())), sub)
                break
    return {"viols": vs, "n": n}


def eval_tsm(case):
    """XSCollection.getTotalScatterMatrix on every micro collection: the sum of the matrices that
    exist (n2n doubled); a missing matrix is skipped (documented), never an error."""
    import numpy as np

    _reset()
    vs = []
    lib, T = _macro_lib_or_viol(case, vs)
    if lib is None:
        return {"viols": vs, "n": 0}
    n = 0
    for label in T["labels"]:
        for kind, attr in (("ISOTXS", "micros"), ("GAMISO", "gammaXS")):
            blk = T["nuc"][label][kind]
            if blk is None:
                continue
            if case.get("label") not in (None, label):
                continue
            n += 1
            ng = T["numGroups"] if kind == "ISOTXS" else T["numGroupsGamma"]
            want = np.zeros((ng, ng))
            absent = []
            for a, f in (("elasticScatter", 1.0), ("inelasticScatter", 1.0), ("n2nScatter", 2.0)):
                if blk["xs"][a] is None:
                    absent.append(a)
                else:
                    want = want + f * np.array(L.flat(blk["xs"][a]), dtype=float)
            sub = {"part": "tsm", "lib": case["lib"], "label": label}
            try:
                got = getattr(lib[label], attr).getTotalScatterMatrix()
                got = np.array(got.toarray() if hasattr(got, "toarray") else got, dtype=float)
            except Exception as e:  # noqa: BLE001
                _bad(vs, "total-scatter-missing-%s-raises" % ("n2nScatter" if "n2nScatter" in absent else "matrix"), "lib %s %s.%s (absent: %s): getTotalScatterMatrix raised %s: %s" % (case["lib"], label, attr, absent, type(e).__name__, e), sub)
                continue
            if got.ndim == 0 and got == 0 and not want.any():
                continue  # the sum of no matrices at all
            if got.shape != want.shape or not _close(got, want):
                _bad(vs, "total-scatter-not-defining-sum", "lib %s %s.%s: getTotalScatterMatrix %s != elastic + inelastic + 2*n2n %s" % (case["lib"], label, attr, L.short(got.tolist()), L.short(want.tolist())), sub)
    return {"viols": vs, "n": n}


def eval_roundtrip(case):
    """Harness sanity (not a property clause): a generated member written and read back by the real
    CCCC writers/readers observes identically, i.e. generated members are what a reader produces."""
    from armi.nuclearDataIO.cccc import gamiso, isotxs, pmatrx
    from mcverif import env
    import os

    _reset()
    spec = L.SPECS[case["name"]]
    if len(spec["kinds"]) != 1:
        return {"ok": None}
    kind = spec["kinds"][0]
    w, r = {"ISOTXS": (isotxs.writeBinary, isotxs.readBinary), "GAMISO": (gamiso.writeBinary, gamiso.readBinary), "PMATRX": (pmatrx.writeBinary, pmatrx.readBinary)}[kind]
    path = os.path.join(env.fresh_dir("c10"), "f.bin")
    lib = L.build_member(case["name"])
    o = L.libobs(lib)
    w(lib, path)
    o2 = L.libobs(r(path))
    o["files"] = o2["files"] = None
    return {"ok": L.first_diff(o, o2) is None}


# ---------------------------------------------------------------------------------------------


def evaluate(case):
    part = case.get("part", "merge")
    if part == "merge":
        return run_seq(case)["viols"]
    if part == "order":
        return eval_order(case)
    if part == "macro":
        return eval_macro(case)["viols"]
    if part == "lin":
        return eval_lin(case)["viols"]
    if part == "tsm":
        return eval_tsm(case)["viols"]
    if part == "hist":
        return eval_hist(case)["viols"]
    raise ValueError(part)


def _dispatch(case):
    import time

    t0 = time.process_time()
    r = _dispatch1(case)
    r["cpu"] = time.process_time() - t0
    return r


def _dispatch1(case):
    part = case["part"]
    if part == "merge":
        return run_seq(case)
    if part == "macro":
        return eval_macro(case)
    if part == "lin":
        return eval_lin(case)
    if part == "tsm":
        return eval_tsm(case)
    if part == "roundtrip":
        return eval_roundtrip(case)
    if part == "hist":
        return eval_hist(case)
    raise ValueError(part)


def merge_cases(ctx):
    bd = BOUNDS[ctx.tier]
    out = []
    for pool, ln in (("gen", bd["gen_len"]), ("fix", bd["fix_len"])):
        mem = L.pool_members(pool, ctx.quick)
        for seq in itertools.permutations(mem, min(ln, len(mem))):
            out.append({"part": "merge", "pool": pool, "seq": list(seq)})
    gen, fix = [s["name"] for s in L.GEN_POOL], list(L.FIXTURES)
    # the same fixture file read twice (value-identical second source), directly and with another file in between
    for f in fix:
        out.append({"part": "merge", "pool": "fixdup", "seq": [f, f + "#2"]})
        for y in fix:
            if y != f:
                out.append({"part": "merge", "pool": "fixdup", "seq": [f, y, f + "#2"]})
    for g in gen:
        for f in fix:
            out.append({"part": "merge", "pool": "cross", "seq": [g, f]})
            out.append({"part": "merge", "pool": "cross", "seq": [f, g]})
    return out


def _grid(names, alphabet):
    for combo in itertools.product(alphabet, repeat=len(names)):
        yield {n: d for n, d in zip(names, combo) if d is not None}


def macro_cases(ctx):
    bd = BOUNDS[ctx.tier]
    out = []
    for lib in bd["macro_libs"]:
        comps = []
        for base in _grid(MACRO_NUCS, bd["dens"]):
            for md in (None, 0.0, 1e-3):
                c = dict(base)
                if md is not None:
                    c[MISSING_NUC] = md
                comps.append(c)
        for i in range(0, len(comps), 24):
            out.append({"part": "macro", "lib": lib, "suffix": "AA", "comps": comps[i : i + 24]})
        # suffix AB: the libraries hold U235AB only, FE56AB is missing there
        ab = [dict(a, **b) for a in _grid(["U235"], bd["dens"]) for b in ({}, {"FE56": 0.0}, {"FE56": 1e-3})]
        out.append({"part": "macro", "lib": lib, "suffix": "AB", "comps": ab})
        lin = list(_grid(MACRO_NUCS, bd["lin_dens"]))
        for c1 in lin:
            coeffs = LIN_COEFFS if (lib != "fix" or not ctx.quick) else LIN_COEFFS[1:]  # 33-group fixture: one coefficient pair in quick
            out.append({"part": "lin", "lib": lib, "suffix": "AA", "combos": [[c1, c2, co] for c2 in lin for co in coeffs], "additive": [c1]})
        out.append({"part": "tsm", "lib": lib})
    # multi-XS-ID library whose XS IDs collide with the letters of nuclide labels held under other XS IDs:
    # per XS ID every composition over the nuclides held under THAT ID (densities 0 / 1e-3 / 2e-3)
    inv = {v: k for k, v in NUC_LABEL.items()}
    for suffix in L.COLLIDE_SUFFIXES:
        names = [inv[lab[:-2]] for lab in L.COLLIDE_LABELS if lab.endswith(suffix)]
        comps = list(_grid(names, [0.0, 1e-3, 2e-3]))
        out.append({"part": "macro", "lib": "col2", "suffix": suffix, "comps": comps})
        out.append({"part": "lin", "lib": "col2", "suffix": suffix, "combos": [[{a: 1e-3}, {b: 2e-3}, LIN_COEFFS[1]] for a in names for b in names], "additive": comps[-1:]})
    out.append({"part": "tsm", "lib": "col2"})
    # presence patterns: 8 nuclides, one per subset of {elastic, inelastic, n2n} scatter blocks (neutron
    # and, mirrored, gamma) and with differing optional reactions: every single nuclide, every pair, all
    for lib in bd["pattern_libs"]:
        nucs = L.PATTERN_NUCS
        comps = [{}]
        for a in nucs:
            comps += [{a: 1e-3}, {a: 2e-3}, {a: 0.0}]
        for a, b in itertools.combinations(nucs, 2):
            comps += [{a: 1e-3, b: 2e-3}, {a: 2e-3, b: 1e-3}]
        comps.append({n: (1e-3 if i % 2 else 2e-3) for i, n in enumerate(nucs)})
        comps.append({n: 1e-3 for n in nucs[:4]})
        comps.append(dict({n: 1e-3 for n in nucs[4:]}, **{MISSING_NUC: 1e-3}))
        for i in range(0, len(comps), 28):
            out.append({"part": "macro", "lib": lib, "suffix": "AA", "comps": comps[i : i + 28]})
        out.append({"part": "lin", "lib": lib, "suffix": "AA", "combos": [[{a: 1e-3}, {b: 2e-3}, co] for a in nucs for b in nucs for co in LIN_COEFFS[1:]], "additive": [comps[-3], comps[-2]]})
        out.append({"part": "tsm", "lib": lib})
    return out


def _spread(cases, heavy):
    """Deterministic interleaving so that the expensive cases (33-group fixtures) do not end up in
    the same chunk of the parallel map; never changes which cases run."""
    hv, lt = [c for c in cases if heavy(c)], [c for c in cases if not heavy(c)]
    if not hv or not lt:
        return cases
    out, step = [], max(1, len(lt) // len(hv))
    for i, c in enumerate(hv):
        out.extend(lt[i * step : (i + 1) * step])
        out.append(c)
    out.extend(lt[len(hv) * step :])
    return out


def run(ctx):
    bd = BOUNDS[ctx.tier]
    # 0. harness sanity: generated members are exactly what the real readers produce
    rt = core.pmap(MOD, "_dispatch", [{"part": "roundtrip", "name": n} for n in [s["name"] for s in L.GEN_POOL] + ["p2iso", "p2gam", "c2iso", "c2gam"]])
    ctx.count("generated_members_roundtrip_exact", sum(1 for r in rt if r["ok"]))
    ctx.count("generated_members_roundtrip_checked", sum(1 for r in rt if r["ok"] is not None))
    if any(r["ok"] is False for r in rt):
        ctx.notes.append("a generated member does not survive the real CCCC write/read bit-exactly (C09 territory); merge oracles are unaffected")

    # 1. merge histories
    mcases = ctx.order(_spread(merge_cases(ctx), lambda c: c["pool"] != "gen"))
    res = core.pmap(MOD, "_dispatch", mcases)
    transitions, states, groups, seen_v = set(), {core.jhash("empty")}, {}, set()
    for c, r in zip(mcases, res):
        for v in r["viols"]:
            k = (v["key"], json.dumps(v["case"], sort_keys=True))
            if k not in seen_v:
                seen_v.add(k)
                ctx.add_violations([v])
        for k, out, okset, dig, reason, unsettled in r["steps"]:
            pre = (c["pool"], tuple(c["seq"][:k]))
            if pre in transitions:
                continue
            transitions.add(pre)
            ctx.count("merge_steps_" + out.split(":")[0])
            if out != "ok":
                ctx.count("merge_" + out)
                ctx.count("refusal_reason_" + str(reason).split(":")[0])
            states.add(dig)
            if unsettled:
                continue  # after a silently accepted conflict the set of merged members is undefined
            g = groups.setdefault((c["pool"], tuple(okset)), {})
            cand = list(pre[1])
            if dig not in g or (len(cand), cand) < (len(g[dig]), g[dig]):
                g[dig] = cand
    multi = 0
    for (pool, okset), digs in sorted(groups.items()):
        if len(okset) >= 2:
            multi += 1
        if len(digs) > 1:
            a, b = sorted(digs.values(), key=lambda s: (len(s), s))[:2]
            case = {"part": "order", "pool": pool, "seq": a, "other": b}
            ctx.add_violations(eval_order_checked(case))
    ctx.count("merged_sets_reached", len(groups))
    ctx.count("merged_sets_with_2plus_members", multi)
    cpu = {}
    for c, r in zip(mcases, res):
        cpu[c["pool"]] = cpu.get(c["pool"], 0.0) + r["cpu"]
    ctx.log("merge cpu by pool: %s" % {k: round(v, 1) for k, v in cpu.items()})
    ctx.log("merge: %d sequences, %d distinct merge steps, %d distinct libraries" % (len(mcases), len(transitions), len(states)))

    # 2. macroscopic grid
    qcases = ctx.order(_spread(macro_cases(ctx), lambda c: c["lib"] == "fix"))
    qres = core.pmap(MOD, "_dispatch", qcases)
    ncomp = nlin = ntsm = nout = nmiss = 0
    for c, r in zip(qcases, qres):
        for v in r["viols"]:
            k = (v["key"], json.dumps(v["case"], sort_keys=True))
            if k not in seen_v:
                seen_v.add(k)
                ctx.add_violations([v])
        if c["part"] == "macro":
            ncomp += r["n"]
            nout += r["stats"].get("outputs", 0)
            nmiss += r["stats"].get("missing", 0)
        elif c["part"] == "lin":
            nlin += r["n"]
        else:
            ntsm += r["n"]
    cpu = {}
    for c, r in zip(qcases, qres):
        cpu[c["part"] + ":" + c["lib"]] = cpu.get(c["part"] + ":" + c["lib"], 0.0) + r["cpu"]
    ctx.log("macro cpu by part: %s" % {k: round(v, 1) for k, v in sorted(cpu.items())})
    ctx.count("macro_compositions", ncomp)
    ctx.count("macro_compositions_with_missing_nuclide", nmiss)
    ctx.count("macro_entry_point_outputs_compared", nout)
    ctx.count("macro_linearity_additivity_relations", nlin)
    ctx.count("total_scatter_collections", ntsm)
    ctx.log("macro: %d compositions, %d outputs, %d linearity/additivity relations" % (ncomp, nout, nlin))

    # 3. macroscopic history search (reused creator / caches across library and composition changes)
    hcases = ctx.order(hist_cases(ctx))
    hres = core.pmap(MOD, "_dispatch", hcases)
    nbuilds = 0
    hops = {}
    for c, r in zip(hcases, hres):
        for v in r["viols"]:
            k = (v["key"], json.dumps(v["case"], sort_keys=True))
            if k not in seen_v:
                seen_v.add(k)
                ctx.add_violations([v])
        nbuilds += r["n"]
        for op, o in zip(c["ops"], r["outs"]):
            hops[op[0] + ":" + o] = hops.get(op[0] + ":" + o, 0) + 1
    ctx.count("macro_histories", len(hcases))
    ctx.count("macro_history_builds_checked", nbuilds)
    for k, v in sorted(hops.items()):
        ctx.count("macro_history_op_" + k, v)
    ctx.log("macro histories: %d histories, %d builds checked, cpu %.1f" % (len(hcases), nbuilds, sum(r["cpu"] for r in hres)))

    # simplest counterexample of every class first, independent of the exploration order
    def _simplest(v):
        j = json.dumps(v["case"], sort_keys=True)
        heavy = v["case"].get("pool") in ("fix", "cross") or v["case"].get("lib") == "fix"  # 33-group fixtures replay slower
        return (heavy, len(j), j)

    ctx.violations.sort(key=_simplest)

    longest = [c for c in mcases if c["pool"] == "gen"]
    ctx.samples = [mcases[0], longest[len(longest) // 2] if longest else mcases[-1], next(c for c in qcases if c["part"] == "macro")["comps"][:3]]
    ctx.coverage.update(
        states=len(states),
        transitions=len(transitions),
        traces_validated_against_impl=len(mcases),
        exhaustive=True,
        max_sequence_length={"gen": bd["gen_len"], "fix": bd["fix_len"], "cross": 2},
        pool_sizes={"gen": len(L.pool_members("gen", ctx.quick)), "fix": len(L.FIXTURES)},
        macro_evaluations=ncomp + nlin + ntsm + nbuilds,
        macro_histories=len(hcases),
        macro_history_max_length=bd["hist_len"],
        macro_rule="every composition of the grid (library nuclide -> absent/0/densities) x missing nuclide (absent/0/1e-3) x library x suffix; every pair of grid compositions x 2 coefficient pairs for linearity",
    )
    ctx.assumptions += [
        "pool of %d generated members (1-3 groups, 8 labels, ISOTXS/GAMISO/PMATRX subsets, optional reactions, sparse scatter) + 6 repo fixtures; sequences of distinct members up to the stated length" % len(L.pool_members("gen", ctx.quick)),
        "generated members carry no file-wide chi; label order, source-file order and the (first-wins by design) library neutron velocity are not part of the order-free content, velocity is checked against 'first merged ISOTXS'",
        "a refusal is ImmutablePropertyError, OSError or AttributeError; 'target unchanged' is judged on the public observation (labels, per-nuclide data/metadata, properties, file metadata)",
        "macroscopic histories: operations {fresh build, reused-creator build, merge second half, delete a nuclide, switch to a same-label library with different data, change density pattern}, every history up to the stated length ending in a build; the composition spans the nuclides the current library holds",
        "macroscopic oracles use tolerance 1e-12 relative; densities from a finite alphabet; compositions restricted to nuclides for which the library holds the kind of data being summed",
    ]


def eval_order_checked(case):  # run in the parent process
    return eval_order(case)
