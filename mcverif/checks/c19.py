"""C19 - the nuclide directory and the material library are internally consistent.

The spaces are finite tables and are enumerated completely:

  directory  every object of ``nuclideBases.instances`` x every identifier it defines
             (name, label, database name, MC2-2, MC2-3 VII.0 / VII.1, MCNP, AAAZZZS):
             the table returns that very object, no identifier value is shared, every table key
             belongs to a nuclide that owns it, identifiers are the ones an independent encoder
             (written here from the documented rules) produces from (Z, A, state);
             the directory agrees line by line with an independent parse of nuclides.dat and
             mcc-nuclides.yaml.
  elements   nuclide <-> element membership both ways, element tables, natural abundances.
  burnchain  independent parse of burn-chain.yaml: every parent and product exists, branches in
             [0, 1], types known; the real ``imposeBurnChain`` produces exactly those entries
             (then undone, the directory is global state).
  material   every Material subclass found by walking ``armi.materials``: instantiable; composition
             keys known, fractions in [0,1] summing to 1 (1e-4); density / pseudoDensity /
             linearExpansionPercent finite (and positive where required) at every point of a grid over
             the range the material states for that very property, through both calling conventions
             (Tc= and Tk=), which must agree.

  mathistory every class x all short histories of composition mutators / instantiate / duplicate:
             instances never share mutable state (see the part's header); run as a second phase.

  dirhistory short histories of changeLabel on a few nuclides: lookups stay truthful, materials still build.

  rebuildhistory short histories of lookups/copies, relabelling and directory rebuilds (forked children):
             every lookup, copy and pickle returns the object currently registered; elements list those.

A *case* names the part (and the material / the history); ``evaluate(case)`` re-runs that part.
"""
import math
import os
import re

from mcverif import core
from mcverif.checks import c03_matlib as matlib

PROPERTY = "C19"
LEVEL = "exploration"
MOD = "mcverif.checks.c19"

ABUND_TOL = 1e-4  # precision of the coarsest abundance entry (Ca-44 given to three digits), DESIGN C19
MASSFRAC_TOL = 1e-4  # "within data precision": compositions are quoted to 4-6 digits
CONV_TOL = 1e-12  # same correlation evaluated through Tc= and Tk=
MAX_V = 40

# documented aliases: a key that resolves to a nuclide whose own identifier is different
ALIASES = {("name", "AM242"): "AM242M", ("dbname", "nAm242"): "AM242M"}

META = ["", "M", "M2", "M3"]
LABEL_DIGITS = "0123456789" "ABCDEFGHIJ" "KLMNOPQRST" "UVWXYZabcd"


def _v(vs, key, msg, case):
    if len(vs) < MAX_V:
        vs.append(core.viol(key, msg, case))


def _finite(x):
    try:
        return math.isfinite(float(x))
    except Exception:
        return False


def _res(name):
    from armi import context

    return os.path.join(context.RES, name)


# ---------------------------------------------------------------------------------------------
# independent encoders (from the documented rules, not from nuclideBases.py)


def enc_name(sym, a, state, z):
    if z == 95 and a == 242 and state == 0:
        return "AM242G"  # documented exchange: plain AM242 means the metastable isomer
    return "%s%d%s" % (sym, a, META[state])


def enc_label(sym, a, state):
    # symbol, then A without its last digit (as many digits as fit in 4 characters), then one
    # character carrying the last digit of A and the state
    keep = 4 - len(sym) - 1  # digits available before the last character
    head = (a // 10) % (10**keep)
    return "%s%d%s" % (sym, head, LABEL_DIGITS[a % 10 + 10 * state])


def enc_mcnp(z, a, state):
    if z == 95 and a == 242 and state in (0, 1):
        # MCNP calls the common metastable Am-242m 95242 and the ground state 95642
        return "%d%03d" % (z, a if state == 1 else a + 400)
    if state > 0:
        return "%d%03d" % (z, a + 300 + 100 * state)
    return "%d%03d" % (z, a)


def enc_aaazzzs(z, a, state):
    return "%d%03d%d" % (a, z, state)


def enc_dbname(name):
    return "n" + name[0].upper() + name[1:].lower()


def read_nuclides_dat():
    rows = []
    with open(_res("nuclides.dat")) as f:
        for line in f:
            if line.startswith("#") or line.startswith("Z") or not line.strip():
                continue
            t = line.split()
            rows.append(dict(z=int(t[0]), n=int(t[1]), a=int(t[2]), state=int(t[3]), sym=t[4].upper(), mass=float(t[5]), abund=float(t[6]), hl=float("inf") if t[7] == "inf" else float(t[7])))
    return rows


def read_elements_dat():
    rows = []
    with open(_res("elements.dat")) as f:
        for line in f:
            if line.startswith("#") or line.startswith("Z") or not line.strip():
                continue
            t = line.split()
            rows.append(dict(z=int(t[0]), sym=t[1].upper(), name=t[2]))
    return rows


def read_yaml(name):
    from ruamel.yaml import YAML

    with open(_res(name)) as f:
        return YAML(typ="safe").load(f)


# ---------------------------------------------------------------------------------------------
# part: directory

ID_KINDS = ("name", "label", "dbname", "mcc2", "mcc3-VII.0", "mcc3-VII.1", "mcc3", "mcnp", "aaazzzs")


def _tables(nb):
    return {
        "name": nb.byName,
        "label": nb.byLabel,
        "dbname": nb.byDBName,
        "mcc2": nb.byMcc2Id,
        "mcc3-VII.0": nb.byMcc3IdEndfbVII0,
        "mcc3-VII.1": nb.byMcc3IdEndfbVII1,
        "mcc3": nb.byMcc3Id,
        "mcnp": nb.byMcnpId,
        "aaazzzs": nb.byAAAZZZSId,
    }


def _ids_of(nuc, nb):
    """{kind: identifier} for the identifiers this nuclide defines (empty string = none)."""
    ids = {"name": nuc.name, "label": nuc.label, "dbname": nuc.getDatabaseName()}
    ids["mcc2"] = nuc.getMcc2Id()
    ids["mcc3-VII.0"] = nuc.getMcc3IdEndfbVII0()
    ids["mcc3-VII.1"] = nuc.getMcc3IdEndfbVII1()
    ids["mcc3"] = nuc.getMcc3Id()
    if isinstance(nuc, nb.IMcnpNuclide):
        ids["mcnp"] = nuc.getMcnpId()
    if isinstance(nuc, nb.NuclideBase):
        ids["aaazzzs"] = nuc.getAAAZZZSId()
    return {k: v for k, v in ids.items() if v not in ("", None)}


def _tables_digest(nb, elements):
    """Identity-level picture of every public table of the directory (keys -> object ids, list orders)."""
    t = _tables(nb)
    return (
        tuple(id(n) for n in nb.instances),
        tuple((k, tuple((key, id(o)) for key, o in d.items())) for k, d in sorted(t.items())),
        tuple((z, id(e), tuple(id(m) for m in e.nuclides)) for z, e in elements.byZ.items()),
        tuple((k, id(e)) for k, e in elements.bySymbol.items()),
        tuple((k, id(e)) for k, e in elements.byName.items()),
        tuple((n.name, n.label, n.abundance, n.weight, len(n.trans), len(n.decays)) for n in nb.instances),
    )


def _eval_directory(case):
    from armi.nucDirectory import elements, nucDir
    from armi.nucDirectory import nuclideBases as nb

    vs = []
    st = {"objects": 0, "lookups": 0, "encoded": 0, "by_class": {}, "ids_per_kind": {}, "table_keys": 0, "dat_rows": 0, "mcc_rows": 0}
    tables = _tables(nb)
    before = _tables_digest(nb, elements)
    owners = {k: {} for k in ID_KINDS}
    byzas = {}
    inst_ids = {id(n) for n in nb.instances}
    for nuc in nb.instances:
        st["objects"] += 1
        cname = type(nuc).__name__
        st["by_class"][cname] = st["by_class"].get(cname, 0) + 1
        ids = _ids_of(nuc, nb)
        nm = nuc.name
        for kind, ident in sorted(ids.items()):
            st["lookups"] += 1
            st["ids_per_kind"][kind] = st["ids_per_kind"].get(kind, 0) + 1
            got = tables[kind].get(ident)
            if got is not nuc and got is not None and id(got) in inst_ids and _ids_of(got, nb).get(kind) == ident:
                pass  # another nuclide carries the same identifier: reported once, as identifier-shared
            elif got is not nuc:
                _v(vs, "c19/lookup-%s" % kind, "%s: %s identifier %r resolves to %r, not to the nuclide itself" % (nm, kind, ident, getattr(got, "name", got)), {"part": "directory", "name": nm})
            owners[kind].setdefault(ident, []).append(nm)
        # identifiers encode Z, A, state
        if isinstance(nuc, nb.NuclideBase):
            sym = nuc.element.symbol
            z, a, s = nuc.z, nuc.a, nuc.state
            byzas.setdefault((z, a, s), []).append(nm)
            want = {"name": enc_name(sym, a, s, z), "label": enc_label(sym, a, s), "mcnp": enc_mcnp(z, a, s), "aaazzzs": enc_aaazzzs(z, a, s)}
            want["dbname"] = enc_dbname(want["name"])
            for kind, w in sorted(want.items()):
                st["encoded"] += 1
                if ids.get(kind) != w:
                    _v(vs, "c19/encode-%s" % kind, "%s (Z=%d A=%d state=%d): %s identifier is %r, the documented rule gives %r" % (nm, z, a, s, kind, ids.get(kind), w), {"part": "directory", "name": nm})
            # decode the AAAZZZS form back
            az = ids.get("aaazzzs", "")
            if az and (int(az[-1]), int(az[-4:-1]), int(az[:-4])) != (s, z, a):
                _v(vs, "c19/encode-aaazzzs", "%s: AAAZZZS %r does not decode to A=%d Z=%d S=%d" % (nm, az, a, z, s), {"part": "directory", "name": nm})
            for kind in ("mcc2", "mcc3-VII.0", "mcc3-VII.1"):
                ident = ids.get(kind)
                if ident:
                    st["encoded"] += 1
                    # MC2 identifiers are table data; they start with the element symbol and carry the
                    # last two digits of A except in the squeezed isomer forms
                    if not ident.upper().replace(" ", "").replace("-", "").replace("_", "").startswith(sym):
                        _v(vs, "c19/encode-%s" % kind, "%s: %s identifier %r does not start with its element symbol %s" % (nm, kind, ident, sym), {"part": "directory", "name": nm})
        elif isinstance(nuc, nb.NaturalNuclideBase):
            st["encoded"] += 3
            sym = nuc.element.symbol
            if (nuc.name, nuc.label, nuc.getMcnpId(), nuc.a, nuc.state) != (sym, sym, "%d000" % nuc.z, 0, 0):
                _v(vs, "c19/encode-natural", "natural nuclide %s: name/label/MCNP id %r %r %r, element %s Z=%d" % (nm, nuc.name, nuc.label, nuc.getMcnpId(), sym, nuc.z), {"part": "directory", "name": nm})
            if nuc.getDatabaseName() != enc_dbname(sym):
                _v(vs, "c19/encode-dbname", "natural nuclide %s: database name %r" % (nm, nuc.getDatabaseName()), {"part": "directory", "name": nm})
        # nucDir front end: plain and hyphenated names come back to the same object
        st["lookups"] += 2
        m = re.match(r"^([A-Z]+)(\d.*)$", nm)
        hyph = "%s-%s" % (m.group(1), m.group(2)) if m else nm
        try:
            g1, g2, lab = nucDir.getNuclide(nm), nucDir.getNuclideFromName(hyph), nucDir.getMc2Label(nm)
        except Exception as e:  # noqa: BLE001
            g1 = g2 = lab = e
        if g1 is not nuc or g2 is not nuc or lab != nuc.label:
            _v(vs, "c19/lookup-nucDir", "%s: nucDir.getNuclide gives %r, getNuclideFromName(%r) gives %r, getMc2Label %r (label %r)" % (nm, getattr(g1, "name", g1), hyph, getattr(g2, "name", g2), lab, nuc.label), {"part": "directory", "name": nm})
        if not _finite(nuc.weight) or nuc.weight <= 0 or not (nuc.halflife >= 0):
            _v(vs, "c19/nuclide-data", "%s: weight %r half-life %r" % (nm, nuc.weight, nuc.halflife), {"part": "directory", "name": nm})
    # no identifier is shared
    for kind in ID_KINDS:
        if kind == "mcc3" and tables["mcc3"] is tables["mcc3-VII.1"]:
            continue  # the same dictionary object under its backwards-compatible name
        for ident, names in sorted(owners[kind].items()):
            if len(names) > 1:
                _v(vs, "c19/identifier-shared-%s/%s" % (kind, ident), "%s identifier %r is shared by %s: the lookup returns %s only" % (kind, ident, names, getattr(tables[kind].get(ident), "name", None)), {"part": "directory", "name": names[0]})
    for zas, names in sorted(byzas.items()):
        if len(names) > 1:
            _v(vs, "c19/duplicate-nuclide", "(Z,A,state)=%s appears as %s" % (zas, names), {"part": "directory", "name": names[0]})
    # every table key belongs to a nuclide that owns it (or is a documented alias)
    for kind in ID_KINDS:
        if kind == "mcc3" and tables["mcc3"] is tables["mcc3-VII.1"]:
            continue
        for key, obj in tables[kind].items():
            st["table_keys"] += 1
            if id(obj) not in inst_ids:
                _v(vs, "c19/table-orphan-%s" % kind, "%s table key %r resolves to an object that is not in the directory" % (kind, key), {"part": "directory", "name": str(key)})
                continue
            if key in owners[kind] and obj.name in owners[kind][key]:
                continue
            if ALIASES.get((kind, key)) == obj.name:
                continue
            _v(vs, "c19/table-stale-key-%s" % kind, "%s table key %r resolves to %s, which does not carry that identifier" % (kind, key, obj.name), {"part": "directory", "name": obj.name})
    # the directory is the data file, line by line
    rows = read_nuclides_dat()
    st["dat_rows"] = len(rows)
    seen = set()
    for r in rows:
        k = (r["z"], r["a"], r["state"])
        names = byzas.get(k, [])
        if k in seen:
            _v(vs, "c19/dat-duplicate-line", "nuclides.dat lists (Z,A,S)=%s twice" % (k,), {"part": "directory", "name": str(k)})
        seen.add(k)
        if len(names) != 1:
            _v(vs, "c19/dat-line-missing", "nuclides.dat line (Z,A,S)=%s %s has %d directory objects" % (k, r["sym"], len(names)), {"part": "directory", "name": str(k)})
            continue
        nuc = nb.byName[names[0]] if names[0] != "AM242M" else nb.byName["AM242M"]
        if r["z"] + r["n"] != r["a"]:
            _v(vs, "c19/dat-line-inconsistent", "nuclides.dat line %s: Z+N != A" % (k,), {"part": "directory", "name": names[0]})
        if nuc.element.symbol != r["sym"] or nuc.weight != r["mass"] or nuc.abundance != r["abund"] or nuc.halflife != r["hl"]:
            _v(vs, "c19/dat-line-differs", "%s: symbol/weight/abundance/half-life %r %r %r %r, data file has %r %r %r %r" % (names[0], nuc.element.symbol, nuc.weight, nuc.abundance, nuc.halflife, r["sym"], r["mass"], r["abund"], r["hl"]), {"part": "directory", "name": names[0]})
    if set(byzas) != seen:
        extra = sorted(set(byzas) - seen)[:5]
        _v(vs, "c19/dat-line-missing", "directory nuclides without a data line: %s" % extra, {"part": "directory", "name": str(extra)})
    # the read-only public queries used above (lookups, nucDir front ends, identifier getters) leave
    # every table exactly as it was
    if _tables_digest(nb, elements) != before:
        _v(vs, "c19/directory-mutated-by-query", "a read-only query (table lookup, nucDir.getNuclide/getNuclideFromName/getMc2Label, identifier getter) changed a directory table", {"part": "directory", "name": "tables"})
    mcc = read_yaml("mcc-nuclides.yaml")
    st["mcc_rows"] = len(mcc)
    for nm, d in sorted(mcc.items()):
        nuc = nb.byName.get(nm)
        if nuc is None or (nuc.name != nm and ALIASES.get(("name", nm)) != nuc.name):
            _v(vs, "c19/mcc-entry-unknown", "mcc-nuclides.yaml entry %r is not a directory name" % nm, {"part": "directory", "name": nm})
            continue
        got = (nuc.getMcc2Id(), nuc.getMcc3IdEndfbVII0(), nuc.getMcc3IdEndfbVII1())
        want = tuple(d[k] or "" for k in ("ENDF/B-V.2", "ENDF/B-VII.0", "ENDF/B-VII.1"))
        if got != want:
            _v(vs, "c19/mcc-entry-differs", "%s: MC2 identifiers %r, data file has %r" % (nm, got, want), {"part": "directory", "name": nm})
    return vs, st


# ---------------------------------------------------------------------------------------------
# part: elements


def _eval_elements(case):
    from armi.nucDirectory import elements, nucDir
    from armi.nucDirectory import nuclideBases as nb

    vs = []
    st = {"elements": 0, "memberships": 0, "with_abundance": 0, "without_abundance": 0, "max_abundance_error": 0.0}
    elems = list(elements.byZ.values())
    inst_ids = {id(n) for n in nb.instances}
    before = _tables_digest(nb, elements)
    for nuc in nb.instances:
        st["memberships"] += 1
        e = nuc.element
        if e is not elements.byZ.get(nuc.z) or e.z != nuc.z:
            _v(vs, "c19/nuclide-element", "%s (Z=%d) points to element %r, byZ has %r" % (nuc.name, nuc.z, e, elements.byZ.get(nuc.z)), {"part": "elements", "name": nuc.name})
        elif not any(m is nuc for m in e.nuclides):
            _v(vs, "c19/element-misses-nuclide", "%s is not listed by its element %s" % (nuc.name, e.symbol), {"part": "elements", "name": nuc.name})
    rows = {r["z"]: r for r in read_elements_dat()}
    if set(rows) != set(elements.byZ):
        _v(vs, "c19/element-table", "elements.dat and elements.byZ differ: %s" % sorted(set(rows) ^ set(elements.byZ))[:8], {"part": "elements", "name": "byZ"})
    for e in elems:
        st["elements"] += 1
        if elements.byZ.get(e.z) is not e or elements.bySymbol.get(e.symbol) is not e or elements.byName.get(e.name) is not e:
            _v(vs, "c19/element-lookup", "element %s Z=%d is not returned by all of byZ/bySymbol/byName" % (e.symbol, e.z), {"part": "elements", "name": e.symbol})
        r = rows.get(e.z)
        if r and (r["sym"], r["name"]) != (e.symbol, e.name):
            _v(vs, "c19/element-table", "element Z=%d is %s/%s, data file has %s/%s" % (e.z, e.symbol, e.name, r["sym"], r["name"]), {"part": "elements", "name": e.symbol})
        seen = set()
        for m in e.nuclides:
            st["memberships"] += 1
            if id(m) not in inst_ids:
                _v(vs, "c19/element-orphan-nuclide", "element %s lists %r, which is not in the directory" % (e.symbol, m), {"part": "elements", "name": e.symbol})
            if m.z != e.z or m.element is not e:
                _v(vs, "c19/element-foreign-nuclide", "element %s (Z=%d) lists %s with Z=%d" % (e.symbol, e.z, m.name, m.z), {"part": "elements", "name": e.symbol})
            if id(m) in seen:
                _v(vs, "c19/element-duplicate-nuclide", "element %s lists %s twice" % (e.symbol, m.name), {"part": "elements", "name": e.symbol})
            seen.add(id(m))
        nat = e.getNaturalIsotopics()
        want_nat = [m for m in nb.instances if m.z == e.z and m.a > 0 and m.abundance > 0.0]
        if sorted(m.name for m in nat) != sorted(m.name for m in want_nat):
            _v(vs, "c19/natural-isotopics", "element %s natural isotopes %s, directory has %s" % (e.symbol, sorted(m.name for m in nat), sorted(m.name for m in want_nat)), {"part": "elements", "name": e.symbol})
        for m in e.nuclides:
            if not (0.0 <= m.abundance <= 1.0):
                _v(vs, "c19/abundance-range", "%s abundance %r" % (m.name, m.abundance), {"part": "elements", "name": e.symbol})
        total = sum(m.abundance for m in want_nat)
        nd = nucDir.getNaturalIsotopics(elementSymbol=e.symbol)
        if sorted(nd) != sorted((m.a, m.abundance) for m in want_nat) or nucDir.getNaturalIsotopics(z=e.z) != nd:
            _v(vs, "c19/natural-isotopics", "nucDir.getNaturalIsotopics(%s) = %s, directory has %s" % (e.symbol, nd, sorted((m.a, m.abundance) for m in want_nat)), {"part": "elements", "name": e.symbol})
        if want_nat:
            mi = nucDir.getNaturalMassIsotopics(elementSymbol=e.symbol)
            if abs(sum(f for _, f in mi) - 1.0) > 1e-12 or any(not (0.0 < f <= 1.0) for _, f in mi):
                _v(vs, "c19/natural-mass-isotopics", "nucDir.getNaturalMassIsotopics(%s) = %s does not sum to one" % (e.symbol, mi), {"part": "elements", "name": e.symbol})
        if want_nat:
            st["with_abundance"] += 1
            st["max_abundance_error"] = max(st["max_abundance_error"], abs(total - 1.0))
            if abs(total - 1.0) > ABUND_TOL:
                _v(vs, "c19/abundance-sum", "element %s: natural abundances sum to %.8f" % (e.symbol, total), {"part": "elements", "name": e.symbol})
            natnuc = nb.byName.get(e.symbol)
            if not isinstance(natnuc, nb.NaturalNuclideBase) or natnuc.element is not e:
                _v(vs, "c19/natural-nuclide-missing", "element %s occurs naturally but has no natural nuclide %r" % (e.symbol, e.symbol), {"part": "elements", "name": e.symbol})
            elif sorted(m.name for m in natnuc.getNaturalIsotopics()) != sorted(m.name for m in want_nat):
                _v(vs, "c19/natural-isotopics", "natural nuclide %s expands to %s" % (e.symbol, [m.name for m in natnuc.getNaturalIsotopics()]), {"part": "elements", "name": e.symbol})
        else:
            st["without_abundance"] += 1
            if e.isNaturallyOccurring() or isinstance(nb.byName.get(e.symbol), nb.NaturalNuclideBase):
                _v(vs, "c19/natural-nuclide-spurious", "element %s has no natural isotopes but reports natural occurrence" % e.symbol, {"part": "elements", "name": e.symbol})
    if _tables_digest(nb, elements) != before:
        _v(vs, "c19/directory-mutated-by-query", "a read-only element query (getNaturalIsotopics, isNaturallyOccurring, nucDir natural isotopics) changed a directory table", {"part": "elements", "name": "tables"})
    return vs, st


# ---------------------------------------------------------------------------------------------
# part: burn chain

TRANS_TYPES = ["n2n", "fission", "nGamma", "nalph", "np", "nd", "nt"]
DECAY_TYPES = ["bmd", "bpd", "ad", "ec", "sf"]


def _eval_burnchain(case):
    from armi.nucDirectory import nuclideBases as nb

    vs = []
    st = {"parents": 0, "entries": 0, "products": 0, "imposed_compared": 0}
    data = read_yaml("burn-chain.yaml")
    want = {}
    for parent, entries in sorted(data.items()):
        st["parents"] += 1
        cc = {"part": "burnchain", "name": parent}
        if parent not in nb.byName:
            _v(vs, "c19/burnchain-parent-unknown", "burn chain parent %r is not a nuclide" % parent, cc)
            continue
        w = {"trans": [], "decays": []}
        for ent in entries:
            st["entries"] += 1
            if len(ent) != 1:
                _v(vs, "c19/burnchain-entry-shape", "%s: entry with keys %s" % (parent, sorted(ent)), cc)
                continue
            (cat, d), = ent.items()
            if cat == "nuSF":
                if not _finite(d) or d < 0:
                    _v(vs, "c19/burnchain-nusf", "%s: nuSF %r" % (parent, d), cc)
                continue
            if cat not in ("transmutation", "decay"):
                _v(vs, "c19/burnchain-entry-shape", "%s: unknown category %r" % (parent, cat), cc)
                continue
            typ, prods, br = d.get("type"), list(d.get("products") or []), d.get("branch", 1.0)
            if typ not in (TRANS_TYPES if cat == "transmutation" else DECAY_TYPES):
                _v(vs, "c19/burnchain-type", "%s: %s of unknown type %r" % (parent, cat, typ), cc)
            if not prods:
                _v(vs, "c19/burnchain-product-unknown", "%s: %s %s names no product" % (parent, cat, typ), cc)
            for p in prods:
                st["products"] += 1
                if p not in nb.byName:
                    _v(vs, "c19/burnchain-product-unknown", "%s: %s %s names product %r, which is not a nuclide" % (parent, cat, typ, p), cc)
            pp = d.get("productParticle")
            if pp is not None and pp not in nb.byName:
                _v(vs, "c19/burnchain-product-unknown", "%s: product particle %r is not a nuclide" % (parent, pp), cc)
            if not _finite(br) or not (0.0 <= br <= 1.0):
                _v(vs, "c19/burnchain-branch", "%s: %s %s -> %s has branching fraction %r" % (parent, cat, typ, prods, br), cc)
            w["trans" if cat == "transmutation" else "decays"].append((typ, tuple(prods), float(br)))
        want[parent] = w
    # the real loader, on the same file; undone afterwards (the directory is process-global)
    from armi.nucDirectory import elements

    before = _tables_digest(nb, elements)
    saved = [(n, n.trans, n.decays, n.nuSF) for n in nb.instances]
    was = nb.burnChainImposed
    try:
        for n in nb.instances:
            n.trans, n.decays = [], []
        nb.burnChainImposed = False
        with open(_res("burn-chain.yaml")) as f:
            nb.imposeBurnChain(f)
        for n in nb.instances:
            got = {"trans": [(t.type, tuple(t.productNuclides), float(t.branch)) for t in n.trans], "decays": [(t.type, tuple(t.productNuclides), float(t.branch)) for t in n.decays]}
            key = n.name if n.name in want else None
            # the plain name AM242 is an alias of AM242M in the file as in the directory
            for alias, target in (("AM242", "AM242M"),):
                if n.name == target and alias in want and target not in want:
                    key = alias
            w = want.get(key, {"trans": [], "decays": []})
            st["imposed_compared"] += 1
            if got != w:
                _v(vs, "c19/burnchain-imposed-differs", "%s: imposed transmutations/decays %s differ from the file's %s" % (n.name, got, w), {"part": "burnchain", "name": n.name})
            for t in list(n.trans) + list(n.decays):
                for p in t.productNuclides:
                    if p not in nb.byName:
                        _v(vs, "c19/burnchain-product-unknown", "%s: imposed %s names product %r, which is not a nuclide" % (n.name, t.type, p), {"part": "burnchain", "name": n.name})
                if not (0.0 <= t.branch <= 1.0):
                    _v(vs, "c19/burnchain-branch", "%s: imposed %s has branch %r" % (n.name, t.type, t.branch), {"part": "burnchain", "name": n.name})
                if t.productParticle is not None and t.productParticle not in nb.byName:
                    _v(vs, "c19/burnchain-product-unknown", "%s: imposed %s has product particle %r" % (n.name, t.type, t.productParticle), {"part": "burnchain", "name": n.name})
            for d in n.decays:
                if not _finite(d.decay) or d.decay < 0:
                    _v(vs, "c19/burnchain-decay-constant", "%s: decay constant %r" % (n.name, d.decay), {"part": "burnchain", "name": n.name})
    finally:
        for n, tr, de, nu in saved:
            n.trans, n.decays, n.nuSF = tr, de, nu
        nb.burnChainImposed = was
    if _tables_digest(nb, elements) != before:
        _v(vs, "c19/directory-mutated-by-burnchain", "imposing the burn chain changed a directory table other than the nuclides' transmutation/decay lists", {"part": "burnchain", "name": "tables"})
    return vs, st


# ---------------------------------------------------------------------------------------------
# part: material

PROPS = (
    # method, must be > 0 for kinds, label used in keys
    ("pseudoDensity", ("solid", "fluid"), "pseudodensity"),
    ("density", ("solid", "fluid"), "density"),
    ("linearExpansionPercent", (), "expansion"),
)


def _call(inst, meth, **kw):
    try:
        return "ok", getattr(inst, meth)(**kw)
    except Exception as e:  # noqa: BLE001 - every exception is an observation here
        return "raises", e


def _eval_material(case):
    from armi.nucDirectory import nuclideBases as nb

    name, npts = case["name"], case["npts"]
    vs = []
    st = {"evaluations": 0, "kind": None, "ranges": {}, "distinct_values": 0}
    cc = {"part": "material", "name": name, "npts": npts}
    cls = matlib.cls_of(name)
    knd = matlib.kind(cls)
    st["kind"] = knd
    try:
        inst = cls()
        inst2 = cls()
    except Exception as e:
        _v(vs, "c19/material-instantiate/%s" % name, "%s() raised %r" % (name, e), cc)
        return vs, st
    st["evaluations"] += 1
    if knd in ("abstract", "custom", "void"):
        # bases and the two placeholders: instantiable, and empty by definition
        return vs, st
    # ---- composition
    mf = dict(inst.massFrac)
    unknown = sorted(k for k in mf if k not in nb.byName)
    if unknown:
        _v(vs, "c19/material-unknown-nuclide/%s" % name, "%s refers to %s, not in the nuclide directory" % (name, unknown), cc)
    badf = sorted(k for k, v in mf.items() if not _finite(v) or not (0.0 <= v <= 1.0))
    if badf:
        _v(vs, "c19/material-massfrac-range/%s" % name, "%s mass fractions outside [0,1]: %s" % (name, {k: mf[k] for k in badf}), cc)
    total = sum(mf.values())
    st["evaluations"] += len(mf) + 1
    if not mf or abs(total - 1.0) > MASSFRAC_TOL:
        _v(vs, "c19/material-massfrac-sum/%s" % name, "%s mass fractions %s sum to %.8g" % (name, mf if len(mf) < 8 else "(%d nuclides)" % len(mf), total), cc)
    if dict(inst2.massFrac) != mf:
        _v(vs, "c19/material-instances-differ/%s" % name, "two fresh instances of %s have different compositions" % name, cc)
    # ---- properties over the range the material states for them
    vals = set()
    raised = {}
    for meth, positive_for, lab in PROPS:
        lo, hi, labels, declared = matlib.stated_range_C(name, meth)
        st["ranges"][meth] = [lo, hi, declared]
        T = matlib.grid(lo, hi, npts)
        prev = None
        for Tc in T:
            st["evaluations"] += 2
            oc, vc = _call(inst, meth, Tc=Tc)
            ok, vk = _call(inst, meth, Tk=Tc + matlib.C_TO_K)
            if oc == "raises" or ok == "raises":
                which = "Tc" if oc == "raises" else "Tk"
                e = vc if oc == "raises" else vk
                raised[meth] = type(e).__name__
                if knd == "fluid" and meth == "density" and raised.get("pseudoDensity") == type(e).__name__:
                    break  # a fluid's density *is* its pseudoDensity: one defect, reported once
                _v(vs, "c19/material-%s-raises/%s" % (lab, name), "%s.%s(%s=%.6g) raised %r (range %s: %.6g..%.6g C)" % (name, meth, which, Tc if which == "Tc" else Tc + matlib.C_TO_K, e, "stated" if declared else "default", lo, hi), dict(cc, T=Tc))
                break
            if vc is None or not _finite(vc) or not _finite(vk):
                _v(vs, "c19/material-%s-not-finite/%s" % (lab, name), "%s.%s at %.6g C = %r (Tk form %r)" % (name, meth, Tc, vc, vk), dict(cc, T=Tc))
                break
            vals.add((meth, round(float(vc), 12)))
            if abs(float(vc) - float(vk)) > CONV_TOL * max(1.0, abs(float(vc))):
                _v(vs, "c19/material-%s-tc-tk-disagree/%s" % (lab, name), "%s.%s(Tc=%.6g) = %r but (Tk=%.6g) = %r" % (name, meth, Tc, vc, Tc + matlib.C_TO_K, vk), dict(cc, T=Tc))
                break
            if knd in positive_for and not float(vc) > 0.0:
                _v(vs, "c19/material-%s-not-positive/%s" % (lab, name), "%s.%s(Tc=%.6g) = %r" % (name, meth, Tc, vc), dict(cc, T=Tc))
                break
            if meth == "linearExpansionPercent":
                if not 100.0 + float(vc) > 0.0:
                    _v(vs, "c19/material-expansion-not-finite/%s" % name, "%s expansion %r %% at %.6g C shrinks below zero length" % (name, vc, Tc), dict(cc, T=Tc))
                    break
                if prev is not None:
                    # the derived factors used by components
                    st["evaluations"] += 2
                    o1, f1 = _call(inst, "linearExpansionFactor", Tc=Tc, T0=prev)
                    o2, f2 = _call(inst, "getThermalExpansionDensityReduction", prevTempInC=prev, newTempInC=Tc)
                    if o2 == "raises" and knd == "fluid" and raised.get("pseudoDensity") == type(f2).__name__:
                        o2, f2 = "ok", 1.0  # the fluid's density function itself refuses: already reported
                    if o1 == "raises" or o2 == "raises" or not _finite(f1) or not _finite(f2) or not 1.0 + float(f1) > 0.0 or (knd == "solid" and not float(f2) > 0.0):
                        _v(vs, "c19/material-expansion-factor/%s" % name, "%s between %.6g and %.6g C: linearExpansionFactor %r, density reduction %r" % (name, prev, Tc, f1, f2), dict(cc, T=Tc))
                        break
                prev = Tc
        # the closed range includes its end points: evaluate them exactly, in the declared unit
        if meth not in raised:
            for kw, val in matlib.stated_endpoints(name, meth):
                st["evaluations"] += 1
                o, v = _call(inst, meth, **{kw: val})
                if o == "raises":
                    _v(vs, "c19/material-%s-raises-at-range-end/%s" % (lab, name), "%s.%s(%s=%r) (an end point of its stated range) raised %r" % (name, meth, kw, val, v), dict(cc, end=[kw, val]))
                    break
                if v is None or isinstance(v, complex) or not _finite(v) or (knd in positive_for and not float(v) > 0.0):
                    _v(vs, "c19/material-%s-not-finite-positive-at-range-end/%s" % (lab, name), "%s.%s(%s=%r) (an end point of its stated range) = %r" % (name, meth, kw, val, v), dict(cc, end=[kw, val]))
                    break
    st["distinct_values"] = len(vals)
    return vs, st


# ---------------------------------------------------------------------------------------------
# part: material histories - instances of a material class never share mutable state
#
# A small explicit history search per class.  State = the list of live instances (the most recent one
# is "current") ; operations = instantiate, every in-place composition mutator the Material API offers
# applied to the current instance, duplicate().  In EVERY reached state: a freshly made probe instance
# observes exactly what the very first instance of the class observed; every live instance other than
# the one just mutated still observes its snapshot; no two live instances share their massFrac object;
# a duplicate equals its original at the moment of duplication.

HIST_OPS = ("new", "set-existing", "set-new", "remove", "clear", "direct", "adjust", "applyInputParams", "setDefaultMassFracs", "duplicate", "duplicate-keep")
NEW_NUCLIDE_CANDIDATES = ("XE135", "KR85", "HE4")


def _mat_obs(inst, Tprobe):
    out = [("massFrac", tuple(sorted((k, float(v)) for k, v in inst.massFrac.items()))), ("refDens", repr(inst.refDens)), ("TD", repr(inst.theoreticalDensityFrac))]
    for meth in ("pseudoDensity", "density", "linearExpansionPercent"):
        o, v = _call(inst, meth, Tc=Tprobe)
        out.append((meth, repr(float(v)) if o == "ok" and _finite(v) else "%s:%s" % (o, type(v).__name__)))
    return tuple(out)


def _obs_delta(a, b):
    for (ka, va), (kb, vb) in zip(a, b):
        if va != vb:
            if ka == "massFrac":
                da, db = dict(va), dict(vb)
                diff = {k: (da.get(k), db.get(k)) for k in sorted(set(da) | set(db)) if da.get(k) != db.get(k)}
                return "massFrac differs (expected, observed): %s; sum observed %.8g" % (dict(list(diff.items())[:6]), sum(db.values()))
            return "%s: expected %s, observed %s" % (ka, va, vb)
    return None


def _hist_enabled(ref_names):
    ops = []
    for op in HIST_OPS:
        if op in ("set-existing", "remove", "adjust", "direct") and not ref_names:
            continue
        ops.append(op)
    return ops


def _hist_apply(cls, live, op, ref_names, newnuc, Tprobe):
    """Apply one operation; returns (outcome, index of the instance that may legitimately have changed)."""
    cur = live[-1]["inst"] if live else None
    if op == "new":
        inst = cls()
        live.append({"inst": inst, "snap": _mat_obs(inst, Tprobe)})
        return "ok", None
    if cur is None:
        return "disabled", None
    if op in ("duplicate", "duplicate-keep"):
        before = _mat_obs(cur, Tprobe)
        dup = cur.duplicate()
        rec = {"inst": dup, "snap": _mat_obs(dup, Tprobe), "dup_of": before}
        if op == "duplicate":
            live.append(rec)  # the duplicate becomes the current instance
        else:
            live.insert(len(live) - 1, rec)  # the original stays current
        return "ok", None
    try:
        if op == "set-existing":
            cur.setMassFrac(ref_names[0], 0.5 * cur.massFrac.get(ref_names[0], 0.2))
        elif op == "set-new":
            cur.setMassFrac(newnuc, 0.0125)
        elif op == "remove":
            cur.removeNucMassFrac(ref_names[-1])
        elif op == "clear":
            cur.clearMassFrac()
        elif op == "direct":
            cur.massFrac[ref_names[-1]] = 0.123
        elif op == "adjust":
            cur.adjustMassFrac(ref_names[0], min(0.9, 0.5 * cur.massFrac.get(ref_names[0], 0.2) + 0.01))
        elif op == "applyInputParams":
            cur.applyInputParams()
        elif op == "setDefaultMassFracs":
            cur.setDefaultMassFracs()
        else:
            raise RuntimeError("unknown op %r" % op)
        out = "ok"
    except Exception as e:  # noqa: BLE001 - a refusing mutator is not this property's subject
        if not _raised_outside_check(e):
            raise
        out = "refused:%s" % type(e).__name__
    return out, len(live) - 1


def _raised_outside_check(e):
    tb, last = e.__traceback__, None
    while tb is not None:
        last, tb = tb, tb.tb_next
    return last is not None and not last.tb_frame.f_code.co_filename.endswith("c19.py")


def _eval_mathistory(case):
    import itertools

    name, depth = case["name"], case["depth"]
    cls = matlib.cls_of(name)
    vs = []
    st = {"histories": 0, "transitions": 0, "states": 0, "refusals": 0, "ops": {}, "probes": 0}
    try:
        first = cls()
    except Exception as e:
        _v(vs, "c19/material-instantiate/%s" % name, "%s() raised %r" % (name, e), {"part": "mathistory", "name": name, "depth": depth, "hist": []})
        return vs, st
    lo, hi, _, _ = matlib.stated_range_C(name, "pseudoDensity")
    Tprobe = 0.5 * (lo + hi)
    ref = _mat_obs(first, Tprobe)
    ref_names = sorted(first.massFrac)
    newnuc = [n for n in NEW_NUCLIDE_CANDIDATES if n not in first.massFrac][0]
    ops = _hist_enabled(ref_names)
    if "hist" in case:
        hists = [list(case["hist"])]
    else:
        hists = [list(h) for L in range(depth + 1) for h in itertools.product(ops, repeat=L)]
    seen = set()
    for hist in hists:
        st["histories"] += 1
        live = [{"inst": cls(), "snap": None}]
        live[0]["snap"] = _mat_obs(live[0]["inst"], Tprobe)
        problem = None
        outs = []
        for k in range(len(hist) + 1):
            changed = None
            if k > 0:
                op = hist[k - 1]
                out, changed = _hist_apply(cls, live, op, ref_names, newnuc, Tprobe)
                outs.append(out)
                st["transitions"] += 1
                st["ops"][op] = st["ops"].get(op, 0) + 1
                if out.startswith("refused"):
                    st["refusals"] += 1
            cur_hist = hist[:k]
            # -- a fresh instance is the library's nominal material
            st["probes"] += 1
            try:
                probe = cls()
                d = _obs_delta(ref, _mat_obs(probe, Tprobe))
            except Exception as e:  # noqa: BLE001
                probe, d = None, "instantiation raised %r" % (e,)
            if d:
                problem = ("c19/material-shared-state/%s" % name, "after %s on one %s instance a fresh %s() is no longer the nominal material: %s" % (cur_hist or "nothing", name, name, d))
            # -- untouched live instances keep their observation; the mutated one is re-snapshotted
            if not problem:
                for i, rec in enumerate(live):
                    now = _mat_obs(rec["inst"], Tprobe)
                    if i == changed:
                        rec["snap"] = now
                    elif now != rec["snap"]:
                        problem = ("c19/material-shared-state/%s" % name, "after %s the untouched %s instance #%d changed: %s" % (cur_hist, name, i, _obs_delta(rec["snap"], now)))
                        break
                    if "dup_of" in rec:
                        dd = _obs_delta(rec.pop("dup_of"), now)
                        if dd and not problem:
                            problem = ("c19/material-duplicate-differs/%s" % name, "after %s: duplicate() differs from its original: %s" % (cur_hist, dd))
            # -- no two instances share their composition dictionary
            if not problem:
                objs = [rec["inst"] for rec in live] + ([probe] if probe is not None else [])
                ids = {}
                for i, o in enumerate(objs):
                    if id(o.massFrac) in ids:
                        problem = ("c19/material-shared-state/%s" % name, "after %s: two %s instances (#%d and #%d) hold the very same massFrac dictionary object" % (cur_hist or "nothing", name, ids[id(o.massFrac)], i))
                        break
                    ids[id(o.massFrac)] = i
            if problem:
                _v(vs, problem[0], problem[1], {"part": "mathistory", "name": name, "depth": depth, "hist": cur_hist})
                break
            seen.add((len(live), tuple(rec["snap"] for rec in live)))
        if problem:
            break  # shared state is now polluted in this process: later histories would not be replayable
    st["states"] = len(seen)
    return vs, st


# ---------------------------------------------------------------------------------------------
# part: directory histories - the directory's public mutator (changeLabel) leaves it consistent
#
# Operations: relabel one of a few nuclides (ones materials use, a natural element, a lumped one) to
# a label nothing else carries, or give it its original label back.  In EVERY reached state: every
# identifier a nuclide HAS resolves to it; no table key resolves to a nuclide that never carried it
# (a former label may keep resolving to its former owner); every material class can still be
# instantiated and observes exactly what it observed before.  Everything is put back afterwards.

RELABEL_TARGETS = ("U235", "U238", "FE", "PU239", "LFP38")


def _lookup_identity(nb, former, vs, case, what):
    """every identifier a nuclide has resolves to it; stale keys resolve to their former owner only"""
    tables = _tables(nb)
    n = 0
    owners = {k: {} for k in ID_KINDS}
    for nuc in nb.instances:
        for kind, ident in _ids_of(nuc, nb).items():
            n += 1
            owners[kind].setdefault(ident, []).append(nuc)
            got = tables[kind].get(ident)
            if got is not nuc and not (got is not None and _ids_of(got, nb).get(kind) == ident):
                _v(vs, "c19/lookup-%s-after-relabel" % kind, "%s: %s identifier %r of %s resolves to %r" % (what, kind, ident, nuc.name, getattr(got, "name", got)), case)
    for kind in ID_KINDS:
        if kind == "mcc3" and tables["mcc3"] is tables["mcc3-VII.1"]:
            continue
        for key, obj in tables[kind].items():
            n += 1
            if any(o is obj for o in owners[kind].get(key, ())) or ALIASES.get((kind, key)) == obj.name:
                continue
            if kind == "label" and former.get(key) is obj:
                continue  # a former label still reaching the nuclide that carried it
            _v(vs, "c19/table-stale-key-%s-after-relabel" % kind, "%s: %s table key %r resolves to %s, which never carried it" % (what, kind, key, obj.name), case)
    return n


def _eval_dirhistory(case):
    import itertools

    from armi.nucDirectory import elements
    from armi.nucDirectory import nuclideBases as nb

    depth = case["depth"]
    vs = []
    st = {"histories": 0, "transitions": 0, "states": 0, "lookups": 0, "material_instantiations": 0}
    before = _tables_digest(nb, elements)
    targets = [t for t in RELABEL_TARGETS if t in nb.byName]
    orig = {t: nb.byName[t].label for t in targets}
    new = {}
    for i, t in enumerate(targets):
        cand = "q%d%s" % (i, t[:1].lower())
        if cand in nb.byLabel:
            raise RuntimeError("scratch label %r already exists" % cand)
        new[t] = cand
    ops = [["relabel", t] for t in targets] + [["restore", t] for t in targets]
    hists = [list(case["hist"])] if "hist" in case else [list(h) for L in range(depth + 1) for h in itertools.product(ops, repeat=L)]
    # reference observation of every material class, before anything is touched
    names = [n for n, _ in matlib.discover()]
    refobs = {}
    for name in names:
        lo, hi, _, _ = matlib.stated_range_C(name, "pseudoDensity")
        refobs[name] = (0.5 * (lo + hi), _mat_obs(matlib.cls_of(name)(), 0.5 * (lo + hi)))
    seen = set()
    try:
        for hist in hists:
            st["histories"] += 1
            former = {}
            for k in range(len(hist) + 1):
                if k > 0:
                    op, t = hist[k - 1]
                    nuc = nb.byName[t]
                    former[nuc.label] = nuc
                    nb.changeLabel(nuc, new[t] if op == "relabel" else orig[t])
                    st["transitions"] += 1
                state = tuple(nb.byName[t].label for t in targets)
                if k < len(hist) and k > 0:
                    continue  # intermediate states are the end states of shorter histories
                if (state, tuple(sorted(former))) in seen:
                    continue
                seen.add((state, tuple(sorted(former))))
                cc = {"part": "dirhistory", "depth": depth, "hist": hist[:k]}
                what = "after %s" % (hist[:k] or "nothing")
                nv = len(vs)
                st["lookups"] += _lookup_identity(nb, former, vs, cc, what)
                for name in names:
                    st["material_instantiations"] += 1
                    Tp, ro = refobs[name]
                    try:
                        d = _obs_delta(ro, _mat_obs(matlib.cls_of(name)(), Tp))
                    except Exception as e:  # noqa: BLE001
                        d = "instantiation raised %r" % (e,)
                    if d:
                        _v(vs, "c19/material-after-relabel/%s" % name, "%s (labels of %s now %s): %s() is no longer the nominal material: %s" % (what, targets, list(state), name, d), cc)
                if len(vs) > nv:
                    raise StopIteration
            # put the labels back before the next history (public API), scratch keys removed below
            for t in targets:
                if nb.byName[t].label != orig[t]:
                    nb.changeLabel(nb.byName[t], orig[t])
            for lab in new.values():
                nb.byLabel.pop(lab, None)
    except StopIteration:
        pass
    finally:
        for t in targets:
            nuc = nb.byName[t]
            nuc.label = orig[t]
            nb.byLabel[orig[t]] = nuc
        for lab in new.values():
            nb.byLabel.pop(lab, None)
    st["states"] = len(seen)
    if _tables_digest(nb, elements) != before and not vs:
        _v(vs, "c19/directory-not-restored", "after giving every relabelled nuclide its label back (and dropping the scratch labels) the directory tables differ from the initial ones", {"part": "dirhistory", "depth": depth})
    return vs, st


# ---------------------------------------------------------------------------------------------
# part: rebuild histories - the directory can be rebuilt the way the package itself does it
#
# Operations: "touch" (look a sample of nuclides up through every public lookup function, deepcopy and
# pickle them), "relabel" (changeLabel on U235), "rebuild" (destroyGlobalNuclides(); factory() - what the
# package's own fixtures do) or, in the second family, "rebuild-all" (elements.factory() first).  At the
# end of EVERY history: every table lookup, every public lookup function, deepcopy and pickle return the
# object CURRENTLY registered (``is``); elements list exactly the current objects; every material class
# still builds its nominal self.  A rebuild cannot be undone, so each history runs in a forked child.

REBUILD_SAMPLE = ("U235", "U238", "PU239", "AM242", "AM242G", "AM242M", "FE", "C", "NA23", "H1", "LFP38", "DUMP1", "TA180M", "B10")


def _touch(nb, nucDir, names):
    import copy
    import pickle

    out = []
    for name in names:
        nuc = nb.byName[name]
        real = nuc.name  # AM242 is an alias of AM242M
        m = re.match(r"^([A-Z]+)(\d.*)$", real)
        got = {
            "fromName": nb.fromName(real),
            "nucDir.getNuclide": nucDir.getNuclide(real),
            "nucDir.getNuclideFromName": nucDir.getNuclideFromName("%s-%s" % (m.group(1), m.group(2)) if m else real),
            "single": nb.single(lambda n, real=real: n.name == real),
            "where": next(iter(nb.where(lambda n, real=real: n.name == real))),
            "deepcopy": copy.deepcopy(nuc),
            "copy": copy.copy(nuc),
            "pickle": pickle.loads(pickle.dumps(nuc)),
        }
        if isinstance(nuc, nb.NuclideBase):
            got["getIsotopics"] = nb.getIsotopics(real)[0]
            got["isotopes(z)"] = next((n for n in nb.isotopes(nuc.z) if n.name == real), None)
        out.append((name, nuc, got))
    return out


def _rebuild_child(case):
    """Runs ONE history in this (forked) process; returns (violations, stats)."""
    from armi.nucDirectory import elements, nucDir
    from armi.nucDirectory import nuclideBases as nb

    hist, family = case["hist"], case["family"]
    vs = []
    cc = {"part": "rebuildhistory", "family": family, "depth": case["depth"], "hist": hist}
    names = [n for n in REBUILD_SAMPLE if n in nb.byName]
    matnames = [n for n, _ in matlib.discover()]
    refobs = {}
    for name in matnames:
        lo, hi, _, _ = matlib.stated_range_C(name, "pseudoDensity")
        refobs[name] = (0.5 * (lo + hi), _mat_obs(matlib.cls_of(name)(), 0.5 * (lo + hi)))
    former = {}
    n_objects_before = len(nb.instances)
    for op in hist:
        if op == "touch":
            _touch(nb, nucDir, names)
        elif op == "relabel":
            nuc = nb.byName["U235"]
            former[nuc.label] = nuc
            nb.changeLabel(nuc, "q0u" if nuc.label != "q0u" else "q1u")
        elif op in ("rebuild", "rebuild-all"):
            try:
                if op == "rebuild-all":
                    elements.factory()
                nb.destroyGlobalNuclides()
                nb.factory()
            except Exception as e:  # noqa: BLE001 - a rebuild that raises is an outcome of the implementation
                _v(vs, "c19/rebuild-raises/%s" % type(e).__name__, "after %s: rebuilding the directory raises %r" % (hist, e), cc)
                return vs, {"lookups": 0, "state": ["rebuild raised", type(e).__name__], "materials": 0}
            former = {}
        else:
            raise RuntimeError("unknown op %r" % (op,))
    what = "after %s" % (hist or "nothing")
    lookups = _lookup_identity(nb, former, vs, cc, what)
    if len(nb.instances) != n_objects_before:
        _v(vs, "c19/rebuild-object-count", "%s: the directory holds %d objects, it held %d" % (what, len(nb.instances), n_objects_before), cc)
    inst = {id(n) for n in nb.instances}
    elements_stale = any(id(m) not in inst for e in elements.byZ.values() for m in e.nuclides)
    for name, nuc, got in _touch(nb, nucDir, names):
        lookups += len(got)
        for fn, g in sorted(got.items()):
            if fn == "isotopes(z)" and elements_stale:
                continue  # reads the element's list: reported once, below
            if g is not nuc:
                same = "an equal but different object (element current: %s, in directory: %s)" % (getattr(g, "element", None) is elements.byZ.get(getattr(g, "z", None)), any(g is n for n in nb.instances)) if g is not None and g == nuc else repr(g)
                _v(vs, "c19/lookup-not-current-object/%s" % fn, "%s: %s of %s does not return the object currently registered under that name but %s" % (what, fn, name, same), cc)
    inst = {id(n) for n in nb.instances}
    listed = set()
    stale = missing = 0
    example = None
    for e in elements.byZ.values():
        for m in e.nuclides:
            listed.add(id(m))
            if id(m) not in inst:
                stale += 1
                example = example or "%s lists a %s that is not the registered object" % (e.symbol, m.name)
    for n in nb.instances:
        if n.element is not elements.byZ.get(n.z):
            _v(vs, "c19/nuclide-element-after-rebuild", "%s: %s points to an element object that is not elements.byZ[%d]" % (what, n.name, n.z), cc)
            break
        if id(n) not in listed:
            missing += 1
            example = example or "%s is not listed by its element" % n.name
    if stale or missing:
        _v(vs, "c19/element-lists-stale-nuclides-after-rebuild", "%s: elements list %d objects that are not in the directory and miss %d registered nuclides (e.g. %s)" % (what, stale, missing, example), cc)
    for name in matnames:
        Tp, ro = refobs[name]
        try:
            d = _obs_delta(ro, _mat_obs(matlib.cls_of(name)(), Tp))
        except Exception as e:  # noqa: BLE001
            d = "instantiation raised %r" % (e,)
        if d:
            _v(vs, "c19/material-after-rebuild/%s" % name, "%s: %s() is no longer the nominal material: %s" % (what, name, d), cc)
    state = [len(nb.instances), sorted(former), nb.byName["U235"].label, stale, missing]
    return vs, {"lookups": lookups, "state": state, "materials": len(matnames)}


def _forked(func, case):
    """Run func(case) in a forked child (the directory rebuild cannot be undone in-process)."""
    import json
    import traceback

    r, w = os.pipe()
    pid = os.fork()
    if pid == 0:
        code = 0
        try:
            os.close(r)
            try:
                data = json.dumps(["ok", func(case)], default=repr)
            except BaseException as e:  # noqa: BLE001
                data = json.dumps(["err", "%r\n%s" % (e, traceback.format_exc())])
            with os.fdopen(w, "w") as f:
                f.write(data)
        except BaseException:  # noqa: BLE001
            code = 3
        finally:
            os._exit(code)
    os.close(w)
    with os.fdopen(r) as f:
        data = f.read()
    os.waitpid(pid, 0)
    status, out = json.loads(data) if data else ("err", "child wrote nothing")
    if status != "ok":
        raise RuntimeError("forked history failed: %s" % out)
    return out


def _rebuild_jobs(depth):
    import itertools

    jobs = []
    for family in ("rebuild", "rebuild-all"):
        ops = ["touch", "relabel", family]
        for L in range(depth + 1):
            for h in itertools.product(ops, repeat=L):
                if L == 0 and family != "rebuild":
                    continue
                if L and family == "rebuild-all" and family not in h:
                    continue  # already explored in the first family
                jobs.append((family, list(h)))
    return jobs


def _eval_rebuildhistory(case):

    depth = case["depth"]
    vs = []
    st = {"histories": 0, "transitions": 0, "states": 0, "lookups": 0, "material_instantiations": 0, "rebuilds": 0}
    jobs = [(case["family"], list(case["hist"]))] if "hist" in case else _rebuild_jobs(depth)
    seen = set()
    failed = set()
    for family, hist in jobs:
        if any(tuple(hist[: len(f)]) == f for f in failed):
            continue  # extensions of a failing history add nothing
        st["histories"] += 1
        st["transitions"] += len(hist)
        st["rebuilds"] += sum(1 for o in hist if o.startswith("rebuild"))
        cvs, cst = _forked(_rebuild_child, {"part": "rebuildhistory", "family": family, "depth": depth, "hist": hist})
        st["lookups"] += cst["lookups"]
        st["material_instantiations"] += cst["materials"]
        seen.add(repr(cst["state"]))
        if cvs:
            failed.add(tuple(hist))
            for v in cvs:
                if len(vs) < MAX_V:
                    vs.append(v)
    st["states"] = len(seen)
    st["state_list"] = sorted(seen)
    return vs, st


# ---------------------------------------------------------------------------------------------

_PARTS = {"directory": _eval_directory, "elements": _eval_elements, "burnchain": _eval_burnchain, "material": _eval_material, "mathistory": _eval_mathistory, "dirhistory": _eval_dirhistory, "rebuildhistory": _eval_rebuildhistory}


def _evaluate_counted(case):
    return _PARTS[case["part"]](case)


def evaluate(case):
    vs = _PARTS[case["part"]](case)[0]
    return vs


def items(ctx):
    npts = 129 if ctx.quick else 2049
    its = [{"part": "directory"}, {"part": "elements"}, {"part": "burnchain"}]
    for name, knd in matlib.discover():
        its.append({"part": "material", "name": name, "npts": npts})
    return its


def run(ctx):
    its = ctx.order(items(ctx))
    res = core.pmap(MOD, "_evaluate_counted", its, chunksize=1)
    # second phase, after every table/grid part is done: the history search mutates instances, and a
    # defect it is looking for would pollute class-level state of the (long-lived) worker
    depth = 3 if ctx.quick else 4
    hits = ctx.order([{"part": "mathistory", "name": name, "depth": depth} for name, _ in matlib.discover()])
    # the directory history (relabelling) goes first and alone in its worker slot: it restores what it touches
    ddepth = 2 if ctx.quick else 3
    rdepth = 2 if ctx.quick else 3
    rits = [{"part": "rebuildhistory", "family": fam, "depth": rdepth, "hist": h} for fam, h in _rebuild_jobs(rdepth)]
    dres = core.pmap(MOD, "_evaluate_counted", [{"part": "dirhistory", "depth": ddepth}] + rits + hits, chunksize=1)
    (dvs, dst), rres, hres = dres[0], dres[1 : 1 + len(rits)], dres[1 + len(rits) :]
    ctx.add_violations(dvs)
    rst = {"histories": 0, "transitions": 0, "lookups": 0, "material_instantiations": 0, "rebuilds": 0}
    rstates = set()
    for rvs, st1 in rres:
        ctx.add_violations(rvs)
        for k in rst:
            rst[k] += st1[k]
        rstates.update(st1["state_list"])
    rst["states"] = len(rstates)
    for k, v in dst.items():
        ctx.count("directory_history_" + k, v)
    for k, v in rst.items():
        ctx.count("rebuild_history_" + k, v)
    ctx.coverage.update(rebuild_history_depth=rdepth, rebuild_history_states=rst["states"], rebuild_history_transitions=rst["transitions"], rebuild_history_operations=["touch", "relabel", "rebuild", "rebuild-all"])
    ctx.coverage.update(directory_history_depth=ddepth, directory_history_states=dst["states"], directory_history_transitions=dst["transitions"], directory_history_relabelled=list(RELABEL_TARGETS))
    hs = {"histories": 0, "transitions": 0, "states": 0, "refusals": 0, "probes": 0}
    hops = {}
    for it, (vs, st) in zip(hits, hres):
        ctx.add_violations(vs)
        for k in hs:
            hs[k] += st[k]
        for k, v in st["ops"].items():
            hops[k] = hops.get(k, 0) + v
    for k, v in hs.items():
        ctx.count("material_history_" + k, v)
    for k, v in sorted(hops.items()):
        ctx.count("material_history_op_" + k, v)
    ev = 0
    nontrivial = 0
    kinds = {}
    ranges = {}
    for it, (vs, st) in zip(its, res):
        ctx.add_violations(vs)
        if it["part"] == "directory":
            ev += st["lookups"] + st["encoded"] + st["table_keys"] + st["dat_rows"] + st["mcc_rows"]
            nontrivial += st["lookups"]
            for k, v in st["by_class"].items():
                ctx.count("directory_objects_" + k, v)
            for k, v in st["ids_per_kind"].items():
                ctx.count("identifiers_" + k, v)
            for k in ("objects", "lookups", "encoded", "table_keys", "dat_rows", "mcc_rows"):
                ctx.count("directory_" + k, st[k])
        elif it["part"] == "elements":
            ev += st["elements"] + st["memberships"]
            nontrivial += st["with_abundance"]
            for k in ("elements", "memberships", "with_abundance", "without_abundance"):
                ctx.count("elements_" + k, st[k])
            ctx.coverage["max_abundance_sum_error"] = st["max_abundance_error"]
        elif it["part"] == "burnchain":
            ev += st["entries"] + st["products"] + st["imposed_compared"]
            nontrivial += st["entries"]
            for k in ("parents", "entries", "products", "imposed_compared"):
                ctx.count("burnchain_" + k, st[k])
        else:
            ev += st["evaluations"]
            nontrivial += st["distinct_values"]
            kinds.setdefault(st["kind"], []).append(it["name"])
            ctx.count("material_evaluations", st["evaluations"])
            ctx.count("material_distinct_property_values", st["distinct_values"])
            if st["ranges"]:
                ranges[it["name"]] = st["ranges"]
    ev += hs["probes"] + dst["lookups"] + dst["material_instantiations"] + rst["lookups"] + rst["material_instantiations"]
    nontrivial += hs["states"] + dst["states"] + rst["states"]
    ctx.coverage.update(
        material_history_depth=depth,
        material_history_states=hs["states"],
        material_history_transitions=hs["transitions"],
        material_history_histories=hs["histories"],
        material_history_operations=list(HIST_OPS),
    )
    ctx.samples = [{"part": "directory"}, {"part": "burnchain"}, {"part": "mathistory", "name": hits[0]["name"], "depth": depth, "hist": ["set-existing", "new"]}] + [it for it in its if it["part"] == "material"][:2]
    ctx.coverage.update(
        evaluations=ev,
        distinct_nontrivial=nontrivial,
        rule="directory: one evaluation per (nuclide, identifier) lookup, per encoder comparison, per table key, per data-file line; elements: per element and per membership; burn chain: per entry/product; materials: per (material, property, grid temperature, calling convention); material histories: per fresh-instance probe in every reached state. Non-trivial = distinct history states + identifier lookups + elements with abundances + burn-chain entries + distinct (property, value) pairs observed",
        exhaustive=True,
        materials_by_kind={k: sorted(v) for k, v in sorted(kinds.items())},
        material_ranges_C={m: r for m, r in sorted(ranges.items())},
        grid_points=its and [i for i in its if i["part"] == "material"][0]["npts"],
        abundance_tolerance=ABUND_TOL,
        massfrac_tolerance=MASSFRAC_TOL,
    )
    ctx.assumptions += [
        "the directory tables are finite and enumerated completely; material properties are evaluated on a grid over the range the material states for that property (20-800 C when it states none): values between grid points or outside the range are not seen",
        "identifier encoders for name/label/MCNP/AAAZZZS are written here from the documented rules; MC2 identifiers are table data compared with an independent parse of mcc-nuclides.yaml",
        "abstract bases (%s), Custom and Void are only instantiated: they are empty by definition" % sorted(matlib.ABSTRACT),
        "data files are parsed independently with str.split / ruamel safe loader (trusted)",
        "directory rebuild: all histories of bounded length over {touch = every public lookup function + copy/deepcopy/pickle on a 14-nuclide sample, changeLabel(U235), destroyGlobalNuclides()+factory() with or without elements.factory() first}, each in a forked child, identity oracle at the end of every history; thermal-scattering tables and class-level references held by material classes are not observed",
        "directory mutators: all histories of bounded length over {changeLabel to a fresh label, changeLabel back} on %s; after each, lookup identity of every identifier, no key reaching a nuclide that never carried it, every material class re-instantiated; label collisions (relabelling onto an existing label) and other mutators (addGlobalNuclide, destroyGlobalNuclides, factory) are not explored" % (RELABEL_TARGETS,),
        "material instances share no mutable state: all histories of bounded length over {instantiate, setMassFrac existing/new, removeNucMassFrac, clearMassFrac, direct massFrac item assignment, adjustMassFrac, applyInputParams(), setDefaultMassFracs, duplicate} on every class; a mutator that raises counts as refused; longer histories and attributes other than massFrac/refDens/theoreticalDensityFrac/densities at one probe temperature are not observed",
    ]
