"""Environment set-up shared by every check.

* puts VERIF_REPO (default /repo) first on sys.path so ``import armi`` sees the working tree;
* applies the ruamel/yamlize shim (DESIGN 2.1) *before* armi is imported;
* configures armi once, silences its logging;
* gives every process a private scratch directory outside /repo, /verif and /tmp.
"""
import atexit
import os
import shutil
import sys
import tempfile

REPO = os.environ.get("VERIF_REPO", "/repo")
VERIF = os.path.dirname(os.path.dirname(os.path.abspath(__file__)))
SCRATCH_ROOT = os.environ.get("VERIF_SCRATCH", "/var/tmp")
GUARD = "ARMI_VERIF_HOOKS"

_configured = False
_scratch = None


def seed():
    try:
        return int(os.environ.get("VERIF_SEED", "0"))
    except ValueError:
        return 0


def shim():
    """yamlize 0.7.1 builds ruamel loaders the pre-0.18 way; ruamel 0.19 then wants max_depth."""
    try:
        import ruamel.yaml.loader as L

        for name in ("BaseLoader", "SafeLoader", "Loader", "RoundTripLoader"):
            cls = getattr(L, name, None)
            if cls is not None and not hasattr(cls, "max_depth"):
                cls.max_depth = None
    except Exception:  # pragma: no cover
        pass


def run_root():
    """One scratch tree per top-level run; child processes (pool workers, replay confirmations)
    inherit it through VERIF_RUN_ROOT and make sub-directories; the creator removes it at exit."""
    global _scratch
    r = os.environ.get("VERIF_RUN_ROOT")
    if r and os.path.isdir(r):
        return r
    r = tempfile.mkdtemp(prefix="armi-verif.%d." % os.getpid(), dir=SCRATCH_ROOT)
    os.environ["VERIF_RUN_ROOT"] = r
    atexit.register(_cleanup, os.getpid(), r)
    return r


def scratch():
    """Private scratch dir for this process."""
    global _scratch
    if _scratch is None or _scratch[0] != os.getpid():
        d = os.path.join(run_root(), "p%d" % os.getpid())
        os.makedirs(d, exist_ok=True)
        _scratch = (os.getpid(), d)
    return _scratch[1]


def _cleanup(pid, d):
    if os.getpid() != pid:
        return
    try:
        os.chdir("/")
    except OSError:
        pass
    shutil.rmtree(d, ignore_errors=True)


def setup(need_armi=True):
    """Idempotent. Returns the armi module (or None)."""
    global _configured
    if REPO not in sys.path[:1]:
        sys.path.insert(0, REPO)
    os.environ.setdefault(GUARD, "1")
    shim()
    if not need_armi:
        return None
    import armi

    if not _configured:
        import logging

        from armi import runLog

        if not armi.isConfigured():
            armi.configure(permissive=True)
        try:
            runLog.setVerbosity("error")
        except Exception:
            pass
        logging.disable(1000)  # armi "header" messages are level 100
        _configured = True
        real = os.path.realpath(armi.__file__)
        want = os.path.realpath(os.path.join(REPO, "armi"))
        if not real.startswith(want):
            raise SystemExit("HARNESS-ERROR: armi imported from %s, expected %s" % (real, want))
    return armi


def enter_scratch():
    """chdir into the private scratch dir and point armi's fast path at it (nothing under /tmp)."""
    d = scratch()
    os.chdir(d)
    try:
        from armi import context

        context._FAST_PATH = d
        context._FAST_PATH_IS_TEMPORARY = False
    except Exception:
        pass
    return d


def fresh_dir(name="w"):
    """A new empty sub-directory of this process's scratch (for one execution)."""
    return tempfile.mkdtemp(prefix=name + ".", dir=scratch())
