#!/bin/sh
# mutant.sh <patch.diff> <PROP> [--no-baseline]
# Applies one patch to a scratch git worktree of /repo (outside /repo and /verif), optionally runs the
# pinned baseline on it (must stay green for the mutant to be interesting), runs the quick check of
# PROP against it (VERIF_REPO), prints the verdict, and removes the worktree.
PATCH="$(readlink -f "$1")"; PROP="$2"; NOBASE="$3"
HERE="$(cd "$(dirname "$0")/.." && pwd)"
WT="${VERIF_SCRATCH:-/var/tmp}/armi-mut.$$"
git -C /repo worktree add -q --detach "$WT" HEAD || exit 2
trap 'git -C /repo worktree remove --force "$WT" >/dev/null 2>&1; rm -rf "$WT"' EXIT
# carry over uncommitted changes of /repo's working tree (the check must see the current tree)
git -C /repo diff HEAD | (cd "$WT" && git apply --allow-empty 2>/dev/null)
(cd "$WT" && git apply "$PATCH") || { echo "MUTANT: patch does not apply"; exit 2; }
if [ "$NOBASE" != "--no-baseline" ]; then
  /venv/bin/python "$HERE/tools/baseline.py" "$WT" | head -5
  [ $? -ne 0 ] || true
fi
OUT="$(VERIF_REPO="$WT" VERIF_EVIDENCE_DIR="$WT/.evidence" VERIF_REPLAY_DIR="$WT/.replays" "$HERE/check" "$PROP" --tier quick 2>&1)"; RC=$?
echo "$OUT" | grep -E "VIOLATION|KNOWN-FINDING|HARNESS|violations=" | head -12
if [ $RC -eq 1 ]; then echo "MUTANT: DETECTED by $PROP (exit 1)"; elif [ $RC -eq 0 ]; then echo "MUTANT: MISSED by $PROP (exit 0)"; else echo "MUTANT: harness error rc=$RC"; echo "$OUT" | tail -20; fi
exit 0
