#!/venv/bin/python
"""Run the pinned baseline suite (guard OFF) and compare with /root/.vp/BASELINE.json.
usage: baseline.py [repo_dir]   -> exit 0 iff every stable_pass test still passes."""
import json, os, subprocess, sys, tempfile, xml.etree.ElementTree as ET
repo = sys.argv[1] if len(sys.argv) > 1 else "/repo"
b = json.load(open("/root/.vp/BASELINE.json"))
fd, out = tempfile.mkstemp(suffix=".junit.xml", dir="/var/tmp"); os.close(fd)
env = dict(os.environ); env.pop("ARMI_VERIF_HOOKS", None)
env["PYTHONPATH"] = repo
cmd = ["/venv/bin/python", "-m", "pytest", "-ra", "-q", "-p", "no:cacheprovider", "--timeout=900",
       "--continue-on-collection-errors", "--junitxml=" + out] + sys.argv[2:]
r = subprocess.run(cmd, cwd=repo, env=env, capture_output=True, text=True)
passed = set()
for tc in ET.parse(out).getroot().iter("testcase"):
    if tc.find("failure") is None and tc.find("error") is None and tc.find("skipped") is None:
        passed.add((tc.get("classname") or "") + "::" + (tc.get("name") or ""))
os.unlink(out)
missing = sorted(set(b["stable_pass"]) - passed)
print("baseline: %d/%d stable tests pass (%d passed in total)" % (len(b["stable_pass"]) - len(missing), len(b["stable_pass"]), len(passed)))
for m in missing[:40]: print("  MISSING", m)
try:
    print(r.stdout.strip().splitlines()[-1] if r.stdout.strip() else "")
    sys.stdout.flush()
except BrokenPipeError:
    os.dup2(os.open(os.devnull, os.O_WRONLY), sys.stdout.fileno())
sys.exit(1 if missing else 0)
