#!/venv/bin/python
"""Rewrites the generated part of DESIGN.md (between the BEGIN/END GENERATED markers) from
known_findings.json, seeded/*/meta.json, mutants/*.patch, tools/manifest_entries and evidence/."""
import glob, json, os, re
H = os.path.dirname(os.path.dirname(os.path.abspath(__file__)))
out = []
# 1. checks
out.append("### A. Checks as built (measured by the last committed evidence run, quick tier)\n")
out.append("| id | level | technique | coverage of the committed quick run |")
out.append("|---|---|---|---|")
for fn in sorted(glob.glob(os.path.join(H, "tools/manifest_entries/C*.json"))):
    pid = os.path.basename(fn)[:-5]
    e = json.load(open(fn))
    evp = os.path.join(H, "evidence", pid + ".json")
    cov = ""
    if os.path.exists(evp):
        ev = json.load(open(evp)); c = ev["coverage"]
        parts = []
        for k in ("states", "transitions", "traces_validated_against_impl", "evaluations", "distinct_nontrivial", "exhaustive"):
            if k in c: parts.append("%s=%s" % (k, c[k]))
        cov = ", ".join(parts) + " (%.0f s wall)" % ev["wall_s"]
    out.append("| %s | %s | %s | %s |" % (pid, e["level"], e["technique"].replace("|", "/"), cov))
# 2. findings
kf = json.load(open(os.path.join(H, "known_findings.json")))["findings"]
out.append("\n### B. Genuine defects found by the checks\n")
out.append("Repaired (`fix:` commits in /repo, one per defect; the check is silent afterwards and reports again if the defect returns):\n")
out.append("| prop. | commit | violation class | failing input / what failed |")
out.append("|---|---|---|---|")
for f in kf:
    if f["status"] == "fixed":
        out.append("| %s | %s | `%s` | %s |" % (f["property"], f["commit"], f["fingerprint"], f["what"].replace("|", "/")))
out.append("\nRecorded as known findings (`known_findings.json`, printed as KNOWN-FINDING, exit 0; any other class still exits 1):\n")
out.append("| prop. | violation class | what fails | why not repaired |")
out.append("|---|---|---|---|")
for f in kf:
    if f["status"] == "known":
        out.append("| %s | `%s` | %s | %s |" % (f["property"], f["fingerprint"], f["what"].replace("|", "/"), f.get("why_not_fixed", "").replace("|", "/")))
# 3. seeded
out.append("\n### C. Independently seeded property-breaking changes (`seeded/<id>/`) and the checks that catch them\n")
out.append("Each was written by a fresh sub-agent that saw only the property text and a scratch worktree; each passes the pinned 881-test baseline, and its demo fails with the change and passes without it (re-verified by `tools/seed_verify.sh`).\n")
out.append("| id | what was changed | needs, to manifest | caught by | note |")
out.append("|---|---|---|---|---|")
for d in sorted(glob.glob(os.path.join(H, "seeded/*/meta.json"))):
    m = json.load(open(d))
    out.append("| %s | %s | %s | %s | %s |" % (os.path.basename(os.path.dirname(d)), str(m.get("summary", "")).replace("|", "/").replace("\n", " "), str(m.get("needs", "")).replace("|", "/").replace("\n", " "), m.get("detected_by", ""), m.get("note", "")))
# 4. mutants
out.append("\n### D. Mutants written alongside the checks (`mutants/*.patch`, each DETECTED by the quick tier of its property via `tools/mutant.sh`)\n")
by = {}
for fn in sorted(glob.glob(os.path.join(H, "mutants/*.patch"))):
    b = os.path.basename(fn)[:-6]
    by.setdefault(b.split("-")[0], []).append(b.split("-", 1)[1])
for k in sorted(by):
    out.append("* %s: %s" % (k, ", ".join(by[k])))
text = "\n".join(out) + "\n"
p = os.path.join(H, "DESIGN.md")
s = open(p).read()
B, E = "<!-- BEGIN GENERATED -->", "<!-- END GENERATED -->"
if B not in s:
    s += "\n" + B + "\n" + E + "\n"
s = s[: s.index(B) + len(B)] + "\n" + text + s[s.index(E):]
open(p, "w").write(s)
print("DESIGN.md tables regenerated: %d findings, %d seeded" % (len(kf), len(glob.glob(os.path.join(H, "seeded/*/meta.json")))))
