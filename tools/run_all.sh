#!/bin/sh
# run_all.sh [tier] [seeds...]  -> runs every check registered in MANIFEST.json, prints one line each.
cd "$(dirname "$0")/.." || exit 2
TIER="${1:-quick}"; shift
SEEDS="${*:-0}"
rc=0
for id in $(jq -r '.checks[].property_id' MANIFEST.json); do
  for s in $SEEDS; do
    t0=$(date +%s)
    out=$(VERIF_SEED=$s ./check "$id" --tier "$TIER" 2>&1); r=$?
    t1=$(date +%s)
    echo "$id seed=$s rc=$r $((t1-t0))s :: $(echo "$out" | grep -cE '^VIOLATION') violations, $(echo "$out" | grep -cE '^KNOWN-FINDING') known :: $(echo "$out" | tail -1 | cut -c1-160)"
    [ $r -ne 0 ] && rc=1 && echo "$out" | grep -E "VIOLATION|HARNESS" | head -5
  done
done
exit $rc
