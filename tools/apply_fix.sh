#!/bin/sh
# apply_fix.sh <diff> <commit message file or string>  : apply to /repo, run pinned baseline, commit as one "fix:" commit (or revert)
D="$(readlink -f "$1")"; MSG="$2"
cd /repo || exit 2
[ -z "$(git status --porcelain -uno)" ] || { echo "repo not clean"; git status --short | head; exit 2; }
git apply "$D" || { echo "APPLY FAILED"; exit 2; }
if /venv/bin/python /verif/tools/baseline.py /repo | tee /dev/stderr | grep -q "881/881"; then
  git add -A armi && git commit -q -m "$MSG" && git log --oneline | head -1
else
  echo "BASELINE BROKEN - reverting"; git checkout -- . ; exit 1
fi
