#!/venv/bin/python
"""seed_keep.py <PROP> <srcdir> <id> <detected_by> [note] : copy a verified seeded change into /verif/seeded/<id>/"""
import json, os, shutil, sys
prop, src, sid, det = sys.argv[1:5]
note = sys.argv[5] if len(sys.argv) > 5 else ""
dst = os.path.join(os.path.dirname(os.path.dirname(os.path.abspath(__file__))), "seeded", sid)
os.makedirs(dst, exist_ok=True)
for f in ("patch.diff", "demo.py"):
    shutil.copy(os.path.join(src, f), os.path.join(dst, f))
m = json.load(open(os.path.join(src, "meta.json")))
m["property"] = prop
m["origin"] = "fresh sub-agent given only the property text and a scratch worktree of /repo (nothing from /verif)"
m["verified_by_orchestrator"] = ["tools/seed_verify.sh %s <dir>: demo.py exits 0 on the clean tree and non-zero with the patch; pinned baseline 881/881 with the patch" % prop]
m["detected_by"] = det
if note:
    m["note"] = note
json.dump(m, open(os.path.join(dst, "meta.json"), "w"), indent=1)
print("kept", dst)
