#!/bin/sh
# seed_regress.sh <out> <id>... : for each seeded/<id>, apply patch.diff to a scratch worktree of /repo HEAD and run the
# quick check of its property against it; one line per seed ("DETECTED keys..." | "MISSED" | "NOAPPLY" | "HARNESS").
OUT="$1"; shift
HERE="$(cd "$(dirname "$0")/.." && pwd)"
for ID in "$@"; do
  P="$(jq -r .property "$HERE/seeded/$ID/meta.json")"
  WT="${VERIF_SCRATCH:-/var/tmp}/armi-reg.$$.$ID"
  git -C /repo worktree add -q --detach "$WT" HEAD || { echo "$ID $P WORKTREE-FAILED" >> "$OUT"; continue; }
  if (cd "$WT" && git apply "$HERE/seeded/$ID/patch.diff" 2>/dev/null); then
    R="$(VERIF_REPO="$WT" VERIF_EVIDENCE_DIR="$WT/.evidence" VERIF_REPLAY_DIR="$WT/.replays" "$HERE/check" "$P" --tier quick 2>&1)"; RC=$?
    KEYS="$(echo "$R" | grep -oE "^  c[0-9]+/[^ ]+" | sort -u | head -4 | tr -d ' ' | tr '\n' ' ')"
    if [ $RC -eq 1 ]; then echo "$ID $P DETECTED $KEYS" >> "$OUT"; elif [ $RC -eq 0 ]; then echo "$ID $P MISSED" >> "$OUT"; else echo "$ID $P HARNESS rc=$RC" >> "$OUT"; fi
  else
    echo "$ID $P NOAPPLY" >> "$OUT"
  fi
  git -C /repo worktree remove --force "$WT" >/dev/null 2>&1; rm -rf "$WT"
done
