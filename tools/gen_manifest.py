#!/venv/bin/python
"""Regenerates /verif/MANIFEST.json from the table below + the check modules present."""
import json, os, sys
HERE = os.path.dirname(os.path.dirname(os.path.abspath(__file__)))
sys.path.insert(0, HERE)
import glob
TABLE = {}
for fn in sorted(glob.glob(os.path.join(HERE, "tools", "manifest_entries", "C*.json"))):
    TABLE[os.path.basename(fn)[:-5]] = json.load(open(fn))
props = [json.loads(l)["id"] for l in open(os.path.join(HERE, "properties.jsonl"))]
checks, na = [], []
READY = set(open(os.path.join(HERE, "tools", "manifest_entries", "READY")).read().split())
for pid in props:
    t = TABLE.get(pid) if pid in READY else None
    modfile = os.path.join(HERE, "mcverif", "checks", pid.lower() + ".py")
    if not t or not t.get("claimed") or not os.path.exists(modfile):
        na.append({"property_id": pid, "reason": (t or {}).get("reason", "no check registered yet in this revision of /verif (work in progress; see DESIGN.md section 4 for the planned bounded-exhaustive check)")})
        continue
    checks.append({
        "property_id": pid,
        "quick_cmd": "./check %s --tier quick" % pid,
        "thorough_cmd": "./check %s --tier thorough" % pid,
        "evidence_file": "/verif/evidence/%s.json" % pid,
        "replay_cmd_template": "./check %s --replay {path}" % pid,
        "engine": "mcverif",
        "level_claimed": {"category": t["level"], "text": t["text"], "design_ref": "DESIGN.md section 4, " + pid},
        "level_note": t["note"],
        "technique": t["technique"],
    })
m = {
    "version": 1,
    "setup_cmd": "./setup.sh",
    "hooks": {
        "guard": "ARMI_VERIF_HOOKS",
        "enable": "no source hooks exist: checks import armi straight from /repo's working tree (editable install, VERIF_REPO overrides) with ARMI_VERIF_HOOKS=1 exported by ./check; faults are injected through the public Interface API",
        "baseline_off_cmd": "/venv/bin/python /verif/tools/baseline.py",
        "source_commits": [],
        "add_only": True,
    },
    "engines": [{
        "name": "mcverif",
        "path": "/verif/mcverif",
        "serves_properties": [c["property_id"] for c in checks],
        "kind_free_text": "hand-written explicit-state / bounded-exhaustive explorer driving the real ARMI implementation (history BFS with canonical-state de-duplication, deviation-bounded configuration enumeration, fault-point enumeration, exhaustive small-scope input enumeration), 16 forked workers; every violation is replayed twice in fresh interpreters before it is reported",
    }],
    "checks": checks,
    "not_applicable": na,
    "notes": "Known findings and fixed defects: /verif/known_findings.json. Seeded property-breaking changes: /verif/seeded/. Design: /verif/DESIGN.md.",
}
json.dump(m, open(os.path.join(HERE, "MANIFEST.json"), "w"), indent=1)
try:
    import jsonschema
    jsonschema.validate(m, json.load(open("/root/.vp/MANIFEST.schema.json")))
    print("MANIFEST.json valid: %d checks, %d not_applicable" % (len(checks), len(na)))
except ImportError:
    print("MANIFEST.json written (jsonschema unavailable)")
