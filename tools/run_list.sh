#!/bin/sh
# run_list.sh <tier> <seed> ID...  -> like run_all.sh for the given ids, in the given order
cd "$(dirname "$0")/.." || exit 2
TIER="$1"; S="$2"; shift 2
for id in "$@"; do
  t0=$(date +%s); out=$(VERIF_SEED=$S ./check "$id" --tier "$TIER" 2>&1); r=$?; t1=$(date +%s)
  echo "$id seed=$S rc=$r $((t1-t0))s :: $(echo "$out" | tail -1 | cut -c1-160)"
  [ $r -ne 0 ] && echo "$out" | grep -E "VIOLATION|HARNESS|Error" | head -8
done
