#!/bin/sh
# seed_verify.sh <PROP> <dir with patch.diff demo.py meta.json> [extra props to run...]
# Confirms a seeded change independently (demo passes clean / fails patched, pinned baseline green with
# the patch), runs the quick check(s) against the patched tree, prints a verdict. Leaves nothing behind.
PROP="$1"; SRC="$(readlink -f "$2")"; shift 2; EXTRA="$*"
HERE="$(cd "$(dirname "$0")/.." && pwd)"
WT="${VERIF_SCRATCH:-/var/tmp}/armi-seed.$$"
# the kept demos import /var/tmp/seedtools/armi_env.py: (re)install it from the committed copy
mkdir -p /var/tmp/seedtools && cp "$HERE/seeded/_support/armi_env.py" "$HERE/tools/baseline.py" /var/tmp/seedtools/ 2>/dev/null
git -C /repo worktree add -q --detach "$WT" HEAD || exit 2
trap 'git -C /repo worktree remove --force "$WT" >/dev/null 2>&1; rm -rf "$WT"' EXIT
git -C /repo diff HEAD | (cd "$WT" && git apply --allow-empty 2>/dev/null)
(cd /var/tmp && ARMI_TREE="$WT" timeout 300 /venv/bin/python "$SRC/demo.py" >/dev/null 2>&1); D0=$?
(cd "$WT" && git apply "$SRC/patch.diff") || { echo "SEED $PROP: patch does not apply to current HEAD"; exit 0; }
(cd /var/tmp && ARMI_TREE="$WT" timeout 300 /venv/bin/python "$SRC/demo.py" >/dev/null 2>&1); D1=$?
BL="$(/venv/bin/python "$HERE/tools/baseline.py" "$WT" | head -1)"
echo "SEED $PROP $(basename "$SRC"): demo clean rc=$D0, patched rc=$D1; $BL"
for P in $PROP $EXTRA; do
  OUT="$(VERIF_REPO="$WT" VERIF_EVIDENCE_DIR="$WT/.evidence" VERIF_REPLAY_DIR="$WT/.replays" "$HERE/check" "$P" --tier quick 2>&1)"; RC=$?
  echo "$OUT" | grep -E "^  c[0-9]+/|HARNESS" | cut -c1-300 | head -6
  if [ $RC -eq 1 ]; then echo "SEED $PROP $(basename "$SRC"): DETECTED by $P"; elif [ $RC -eq 0 ]; then echo "SEED $PROP $(basename "$SRC"): MISSED by $P"; else echo "SEED $PROP $(basename "$SRC"): harness error rc=$RC from $P"; echo "$OUT" | tail -15; fi
done
