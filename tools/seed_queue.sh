#!/bin/sh
# seed_queue.sh <outroot> <logprefix> PROP...   : verifies <outroot>/PROP/s1 and s2 sequentially
ROOT="$1"; PFX="$2"; shift 2
for P in "$@"; do for s in s1 s2; do
  [ -f "$ROOT/$P/$s/patch.diff" ] && /verif/tools/seed_verify.sh "$P" "$ROOT/$P/$s" > "/var/tmp/${PFX}_${P}_${s}.log" 2>&1
done; done
