#!/bin/sh
# Offline set-up: nothing to build (pure Python run by /venv/bin/python); byte-compile and smoke-test.
cd "$(dirname "$0")" || exit 1
mkdir -p evidence replays
/venv/bin/python -m compileall -q mcverif >/dev/null || exit 1
PYTHONPATH="$PWD" PYTHONDONTWRITEBYTECODE=1 /venv/bin/python -m mcverif.selftest || exit 1
echo "setup ok"
